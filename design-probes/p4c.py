import sys; sys.path.insert(0,'/tmp/proto')
import asyncio, time, types, io, contextlib
from asyncio import events
from vloop import VLoop, VTime
import cubed.runtime.asyncio as cra

class OrderedSet(set):
    def __init__(self, items):
        super().__init__(items); self._order=list(items)
    def __iter__(self): return iter(self._order)

class AsyncioShim:
    """Proxy for the asyncio module inside cubed.runtime.asyncio: makes iteration order of wait() results deterministic."""
    def __init__(self, ctl): self._ctl=ctl
    def __getattr__(self, n): return getattr(asyncio, n)
    async def wait(self, fs, **kw):
        done, pending = await asyncio.wait(fs, **kw)
        order = sorted(done, key=lambda f: self._ctl.done_rank[f])
        if self._ctl.reverse_done: order.reverse()
        return OrderedSet(order), pending

class Run:
    """One execution of async_map_unordered under a choice sequence."""
    def __init__(self, choices, n, use_backups, batch_size, n_fast):
        self.choices=list(choices); self.pos=0; self.trace=[]
        self.n=n; self.use_backups=use_backups; self.batch_size=batch_size; self.n_fast=n_fast
        self.done_rank={}; self.reverse_done=False
        self.ticks=0; self.points=[]  # number of alternatives at each choice point
    def choose(self, k, label):
        if self.pos < len(self.choices): c=self.choices[self.pos]
        else: c=0
        assert c<k, ("replay divergence", label, c, k)
        self.pos+=1; self.points.append(k); self.trace.append(c); return c
    def run(self):
        loop=VLoop(); self.loop=loop
        cra.time=VTime(loop); cra.asyncio=AsyncioShim(self)
        subs=[]   # all submissions (input, future, kind)
        pend=[]
        def mk(kind):
            def cf(inputs, **kw):
                out=[]
                for i in inputs:
                    f=loop.create_future(); subs.append((i,f,kind)); pend.append((i,f,kind)); out.append((i,f))
                return out
            return cf
        results=[]; err=[None]
        async def main():
            try:
                async for r in cra.async_map_unordered(mk("orig"), range(self.n), use_backups=self.use_backups,
                        create_backup_futures_func=mk("backup"), batch_size=self.batch_size):
                    results.append(r)
            except BaseException as e:
                err[0]=e
        events._set_running_loop(loop)
        rank=0
        try:
            with contextlib.redirect_stdout(io.StringIO()):
                task=loop.create_task(main())
                steps=0
                while not task.done():
                    loop.drain()
                    if task.done(): break
                    steps+=1
                    if steps>200: err[0]=RuntimeError("HANG: horizon"); break
                    # fast inputs complete successfully in index order at once, one per turn
                    fast=[p for p in pend if p[0]<self.n_fast and p[2]=="orig"]
                    if fast:
                        p=fast[0]; pend.remove(p); self.done_rank[p[1]]=rank; rank+=1; p[1].set_result(p[0]); 
                        if loop._vt<1.0: loop._vt=1.0
                        continue
                    # menu: for each pending future: ok / fail ; plus advance time (if timer)
                    pend[:]=sorted([p for p in pend if not p[1].done()], key=lambda p:(p[0],p[2]!='orig'))
                    menu=[]
                    for p in pend:
                        menu.append(("ok",p)); menu.append(("fail",p))
                    if loop.next_timer() is not None and (not pend or (self.use_backups and self.ticks<3)): menu.append(("tick",None))
                    if not menu: err[0]=RuntimeError("DEADLOCK"); break
                    c=self.choose(len(menu),"menu")
                    act,p=menu[c]
                    if act=="tick": self.ticks+=1; loop.advance_to_next_timer(); continue
                    pend.remove(p); self.done_rank[p[1]]=rank; rank+=1
                    if act=="ok": p[1].set_result(p[0])
                    else: p[1].set_exception(RuntimeError(f"fail {p[0]} {p[2]}"))
                    # simultaneity: optionally complete a second future before the loop runs
                    pend[:]=sorted([p for p in pend if not p[1].done()], key=lambda p:(p[0],p[2]!='orig'))
                    if pend:
                        c2=self.choose(1+2*len(pend),"simul")
                        if c2>0:
                            q=pend[(c2-1)//2]; pend.remove(q); self.done_rank[q[1]]=rank; rank+=1
                            if (c2-1)%2==0: q[1].set_result(q[0])
                            else: q[1].set_exception(RuntimeError(f"fail {q[0]} {q[2]}"))
                            self.reverse_done = bool(self.choose(2,"order"))
                        else: self.reverse_done=False
        finally:
            events._set_running_loop(None); cra.time=time; cra.asyncio=asyncio
        return results, err[0], subs

def check(results, err, subs, n):
    # oracle
    from collections import Counter
    outcome={}  # input -> list of (kind, state)
    for i,f,kind in subs:
        st = "pending" if not f.done() else ("cancelled" if f.cancelled() else ("fail" if f.exception() else "ok"))
        outcome.setdefault(i,[]).append((kind,st))
    probs=[]
    for i,l in outcome.items():
        if len(l)>2: probs.append(f"input {i} submitted {len(l)} times")
    c=Counter(results)
    if err is None:
        for i in range(n):
            if c[i]!=1: probs.append(f"completed but input {i} delivered {c[i]} times")
            if not any(st=="ok" for _,st in outcome.get(i,[])): probs.append(f"input {i} treated done w/o success")
    else:
        if not isinstance(err, RuntimeError) or not str(err).startswith("fail"):
            probs.append(f"unexpected error {type(err).__name__}: {err}")
        else:
            # raising allowed only if some input has all its submissions failed (no pending twin)
            ok=False
            for i,l in outcome.items():
                if all(st=="fail" for _,st in l): ok=True
            if not ok: probs.append(f"raised {err} although every input could still succeed")
        for i,k in c.items():
            if k>1: probs.append(f"input {i} delivered {k} times before error")
    return probs

def explore(n, use_backups, batch_size, n_fast, max_dev, limit=200000):
    stack=[[]]; execs=0; bad={}
    t=time.time()
    while stack:
        prefix=stack.pop()
        r=Run(prefix,n,use_backups,batch_size,n_fast)
        results,err,subs=r.run(); execs+=1
        for p in check(results,err,subs,n):
            if "although" in p and p not in bad: print("DETAIL", p, [(i,k,("pending" if not f.done() else "cancelled" if f.cancelled() else "fail" if f.exception() else "ok")) for i,f,k in subs if i>=n-3], results[-4:])
            key=p.split(" input")[0][:40] if False else p
            bad.setdefault(p,list(r.trace))
        dev=sum(1 for c in prefix if c!=0)
        for i in range(len(prefix), len(r.points)):
            if dev>=max_dev: break
            for alt in range(1,r.points[i]):
                stack.append(r.trace[:i]+[alt])
        if execs>=limit: print("LIMIT"); break
    return execs, bad, time.time()-t

for cfg in [dict(n=22,use_backups=True,batch_size=10,n_fast=20,max_dev=2),
            dict(n=11,use_backups=True,batch_size=None,n_fast=9,max_dev=3),
            dict(n=11,use_backups=True,batch_size=None,n_fast=9,max_dev=5),
            dict(n=12,use_backups=True,batch_size=None,n_fast=9,max_dev=4),
            dict(n=4,use_backups=False,batch_size=None,n_fast=0,max_dev=99),
            ]:
    execs,bad,dt=explore(**cfg)
    print(cfg, "execs",execs,"time %.1f"%dt, "distinct problems",len(bad))
    for k,v in list(bad.items())[:5]: print("   ",k,v)
