import sys, numpy as np, cloudpickle, cubed, cubed.array_api as xp
from cubed.runtime.create import create_executor
spec=cubed.Spec(work_dir=sys.argv[1], allowed_mem=100000)
k=int(sys.argv[3])
pre=[xp.asarray(np.zeros(2), spec=spec) for _ in range(k)]
a=xp.asarray(np.arange(8.), chunks=4, spec=spec)
b=xp.negative(a)   # local lazy
d=cloudpickle.loads(open(sys.argv[2],"rb").read())
ex=create_executor("single-threaded")
print("k",k,"names local",a.name,b.name,"deser",d.name)
print(" d alone  ", d.compute(executor=ex))
print(" b - d    ", xp.subtract(b,d).compute(executor=ex), "expected", (-np.arange(8.))-(-(np.arange(8.)+1000)))
