from fractions import Fraction
from cubed.utils import convert_to_bytes
import itertools
units={"":0,"B":0,"kB":1,"MB":2,"GB":3,"TB":4,"PB":5}
mant=[]
for a in ["0","1","2","7","10","12","100","123","999","1000","1234","9007199254740993","10000000000000001"]:
    mant.append(a)
for a in ["0","1","2","12","123"]:
    for b in ["0","1","3","5","25","125","001","999","0000000000000001"]:
        mant.append(a+"."+b)
mant += ["1e3","1.5e3","2.5e-1",".5","5.","1_000","+1","-1","nan","inf","","1.0000000000000001"]
bad=[]; acc=0; rej=0
for m,u in itertools.product(mant,list(units)+["KB","kb","KiB","b","mB"]):
    s=m+u
    try:
        exact=None
        if u in units:
            try:
                f=Fraction(m.replace("_","")) * 1000**units[u]
                exact=f
            except Exception: exact=None
        r=convert_to_bytes(s); acc+=1
        if exact is None or exact.denominator!=1 or exact<0 or int(exact)!=r:
            bad.append((s,r,exact))
    except ValueError: rej+=1
    except Exception as e: bad.append((s,"EXC "+type(e).__name__,None))
print(acc,rej,len(bad))
for b in bad[40:]: print(b)
for v in [0, 5, 1.0, 1.5, -1, True, 1e20, float("nan"), float("inf"), 2**60+1]:
    try: print(repr(v), "->", repr(convert_to_bytes(v)))
    except Exception as e: print(repr(v), "EXC", type(e).__name__)
