import sys; sys.path.insert(0,'/tmp/proto')
import asyncio, time, numpy as np, zarr
from asyncio import events
from vloop import VLoop, VTime
import cubed, cubed.array_api as xp
import cubed.runtime.asyncio as cra
from cubed.runtime.types import DagExecutor
from zarr.storage import MemoryStore

class CTL:
    cur=None      # current task id (overlay owner)
    overlays={}   # task id -> {store_id:{key: value}}
    log=[]
class XStore(MemoryStore):
    """visible base + per-task write overlay (extremal latency)"""
    async def get(self, key, prototype=None, byte_range=None):
        ov = CTL.overlays.get(CTL.cur, {}).get(id(self), {})
        if key in ov:
            v = ov[key]; CTL.log.append((CTL.cur,"get",id(self),key,"own")); 
            return v if byte_range is None else None
        r = await super().get(key, prototype, byte_range)
        CTL.log.append((CTL.cur,"get",id(self),key, r is not None))
        return r
    async def set(self, key, value, byte_range=None):
        CTL.log.append((CTL.cur,"set",id(self),key,len(value)))
        if CTL.cur is None: return await super().set(key,value,byte_range)
        CTL.overlays.setdefault(CTL.cur,{}).setdefault(id(self),{})[key]=value
    async def exists(self, key):
        ov = CTL.overlays.get(CTL.cur, {}).get(id(self), {})
        return key in ov or await super().exists(key)
    async def flush(self, tid):
        kv = CTL.overlays.get(tid,{}).pop(id(self),{})
        for k,v in kv.items(): await MemoryStore.set(self,k,v)
STORES=[]
def mkstore():
    s=XStore(); STORES.append(s); return s

class VirtualExecutor(DagExecutor):
    name="virtual"
    def __init__(self, order=lambda n:0, parallel=False, **kw): super().__init__(**kw); self.order=order; self.parallel=parallel
    def execute_dag(self, dag, callbacks=None, spec=None, compute_id=None, **kw):
        loop=VLoop(); cra.time=VTime(loop)
        pending=[]; tid=[0]
        def cff(inputs, **kwargs):
            out=[]
            for i in inputs:
                f=loop.create_future(); tid[0]+=1; t=(kwargs.get("name"),tid[0])
                CTL.cur=t
                try:
                    res=kwargs["func"](i, config=kwargs["config"]); exc=None
                except Exception as e: res=None; exc=e
                finally: CTL.cur=None
                pending.append((f,t,res,exc)); out.append((i,f))
            return out
        from zarr.core.sync import sync
        events._set_running_loop(loop)
        try:
            task=loop.create_task(cra.async_map_dag(cff, dag, callbacks=callbacks, compute_arrays_in_parallel=self.parallel))
            while not task.done():
                loop.drain()
                if task.done(): break
                if pending:
                    f,t,res,exc=pending.pop(self.order(len(pending)))
                    for s in STORES: sync(s.flush(t))
                    if exc: f.set_exception(exc)
                    else: f.set_result((res, dict(function_start_tstamp=0,function_end_tstamp=0)))
                else:
                    loop.advance_to_next_timer()
            task.result()
        finally:
            events._set_running_loop(None); cra.time=time

spec=cubed.Spec(intermediate_store=mkstore(), allowed_mem=1000000)
x=xp.asarray(np.arange(16.), chunks=(2,), spec=spec)
y=xp.negative(x)
ts=mkstore()
za=zarr.create_array(ts, shape=(16,), dtype="f8", chunks=(8,), fill_value=-1.0)
za[:]=-1
cubed.store(y, za, executor=VirtualExecutor())
print("store into differently chunked target under extremal latency:", za[:])
y2=xp.negative(x); z=xp.sum(xp.add(y2,y2))
print(z.compute(executor=VirtualExecutor(order=lambda n:n-1), optimize_graph=False), -2*np.arange(16.).sum())
zz=zarr.open_array(spec.intermediate_store, path=z.name)
print("nchunks_initialized", zz.nchunks_initialized, zz.nchunks)
print(len(CTL.log), CTL.log[-5:])
