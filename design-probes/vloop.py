import asyncio, heapq, time as _time, types, itertools, sys
from asyncio import events

class VLoop(asyncio.BaseEventLoop):
    """Deterministic virtual-time loop: no selector, time advances only when told."""
    def __init__(self):
        super().__init__()
        self._vt = 0.0
    def time(self): return self._vt
    def _process_events(self, ev): pass
    def _write_to_self(self): pass
    # run ready callbacks until none left (does not advance time)
    def drain(self, limit=100000):
        n=0
        while True:
            # move due timers
            while self._scheduled and self._scheduled[0]._when <= self._vt:
                h = heapq.heappop(self._scheduled); h._scheduled=False
                if not h._cancelled: self._ready.append(h)
            if not self._ready: return n
            h = self._ready.popleft()
            if not h._cancelled:
                h._run()
            n+=1
            if n>limit: raise RuntimeError("livelock")
    def next_timer(self):
        while self._scheduled and self._scheduled[0]._cancelled:
            h=heapq.heappop(self._scheduled); h._scheduled=False
        return self._scheduled[0]._when if self._scheduled else None
    def advance_to_next_timer(self):
        w = self.next_timer()
        assert w is not None
        self._vt = max(self._vt, w)

class VTime:
    def __init__(self, loop): self.loop=loop
    def time(self): return 1000.0 + self.loop._vt
    def monotonic(self): return self.loop._vt
