import sys; sys.path.insert(0,'/tmp/proto')
import asyncio, time, numpy as np, zarr, re, itertools, warnings
from asyncio import events
from vloop import VLoop, VTime
import cubed, cubed.array_api as xp
import cubed.runtime.asyncio as cra
import cubed.core.plan as cplan
from cubed.runtime.types import DagExecutor
from zarr.storage import MemoryStore
from zarr.core.sync import sync
warnings.simplefilter("ignore")
class CTL:
    cur=None; overlays={}; log=[]
class XStore(MemoryStore):
    async def get(self, key, prototype=None, byte_range=None):
        ov = CTL.overlays.get(CTL.cur, {})
        if key in ov:
            CTL.log.append((CTL.cur,"get",key,"own")); return ov[key]
        r = await super().get(key, prototype, byte_range)
        CTL.log.append((CTL.cur,"get",key, r is not None)); return r
    async def set(self, key, value, byte_range=None):
        CTL.log.append((CTL.cur,"set",key,len(value)))
        if CTL.cur is None: return await super().set(key,value,byte_range)
        CTL.overlays.setdefault(CTL.cur,{})[key]=value
    async def exists(self, key):
        return key in CTL.overlays.get(CTL.cur, {}) or await super().exists(key)
    async def flush(self, tid):
        for k,v in CTL.overlays.pop(tid,{}).items(): await MemoryStore.set(self,k,v)
class Divergence(Exception): pass
class VirtualExecutor(DagExecutor):
    name="virtual"
    def __init__(self, store, choices, parallel=False, batch_size=None):
        super().__init__(); self.store=store; self.choices=list(choices); self.points=[]; self.trace=[]; self.parallel=parallel; self.batch_size=batch_size
    def choose(self,k):
        i=len(self.trace); c=self.choices[i] if i<len(self.choices) else 0
        if c>=k: raise Divergence()
        self.trace.append(c); self.points.append(k); return c
    def execute_dag(self, dag, callbacks=None, spec=None, compute_id=None, **kw):
        loop=VLoop(); cra.time=VTime(loop)
        pending=[]; tid=[0]
        def cff(inputs, **kwargs):
            out=[]
            for i in inputs:
                f=loop.create_future(); tid[0]+=1; t=(kwargs.get("name"),tid[0])
                CTL.cur=t
                try: res=kwargs["func"](i, config=kwargs["config"]); exc=None
                except Exception as e: res=None; exc=e
                finally: CTL.cur=None
                pending.append((f,t,res,exc)); out.append((i,f))
            return out
        events._set_running_loop(loop)
        try:
            kws={} if self.batch_size is None else dict(batch_size=self.batch_size)
            task=loop.create_task(cra.async_map_dag(cff, dag, callbacks=callbacks, compute_arrays_in_parallel=self.parallel, **kws))
            while not task.done():
                loop.drain()
                if task.done(): break
                if pending:
                    f,t,res,exc=pending.pop(self.choose(len(pending)))
                    sync(self.store.flush(t))
                    if exc: f.set_exception(exc)
                    else: f.set_result((res, dict(function_start_tstamp=0,function_end_tstamp=0)))
                else: loop.advance_to_next_timer()
            task.result()
        finally:
            events._set_running_loop(None); cra.time=time
def is_chunk(k): return re.search(r"(^|/)c(/|$)",k) is not None
A=np.arange(24.).reshape(4,6)+1
def program(spec):
    a=xp.asarray(A,chunks=(2,3),spec=spec)
    b=xp.negative(a)          # 4 tasks
    c=xp.sum(b,axis=0)        # reduce
    d=xp.permute_dims(b,(1,0))
    e=xp.add(xp.sum(d,axis=1), c)   # diamond
    return e, -A.sum(0)*2
def explore(parallel, batch, bound, optimize=False):
    stack=[[]]; n=0; viol={}; outcomes=set()
    t0=time.time()
    while stack:
        prefix=stack.pop()
        st=XStore(); spec=cubed.Spec(intermediate_store=st, allowed_mem=100000)
        CTL.log.clear(); CTL.overlays.clear()
        e,ref=program(spec)
        ex=VirtualExecutor(st,prefix,parallel,batch)
        try:
            r=e.compute(executor=ex, optimize_graph=optimize)
            out="ok" if np.array_equal(r,ref) else "WRONG VALUES"
        except Divergence: raise
        except Exception as ex_: out="EXC "+type(ex_).__name__
        n+=1
        misses=[l for l in CTL.log if l[1]=="get" and l[0] is not None and is_chunk(l[2]) and l[3] is False]
        if misses: out+=" +MISS"
        outcomes.add(out)
        if out!="ok": viol.setdefault(out,list(ex.trace))
        dev=sum(1 for c in prefix if c)
        if dev<bound:
            for i in range(len(prefix),len(ex.points)):
                for alt in range(1,ex.points[i]): stack.append(ex.trace[:i]+[alt])
    return n, outcomes, viol, time.time()-t0
print("unchanged tree")
for par in (False,True):
    for batch in (None,2):
        print(par,batch, explore(par,batch,1))
# mutation: drop arrays->op edges
orig=cplan.Plan._create_lazy_zarr_arrays
def mutated(self,dag):
    dag=orig(self,dag)
    if "arrays" in dag: dag.remove_edges_from(list(dag.out_edges("arrays")))
    return dag
cplan.Plan._create_lazy_zarr_arrays=mutated
print("mutant: no arrays->op edges")
for par in (False,True):
    print(par, explore(par,None,1))
