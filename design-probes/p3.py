import numpy as np, cubed, cubed.array_api as xp, zarr, traceback
from zarr.storage import MemoryStore
from cubed.runtime.create import create_executor
ex = create_executor("single-threaded")
spec = cubed.Spec(intermediate_store=MemoryStore(), allowed_mem=1000000)
def t(name, f):
    try:
        r = f()
        print(name, "->", r)
    except Exception as e:
        print(name, "EXC", type(e).__name__, str(e)[:150])

# stack with different chunking
an = np.arange(8.); bn = np.arange(8.)+100
a = xp.asarray(an, chunks=(2,), spec=spec); b = xp.asarray(bn, chunks=(4,), spec=spec)
t("stack diff chunks", lambda: np.array_equal(xp.stack([a,b]).compute(executor=ex), np.stack([an,bn])))
# cumulative_sum
for n in [5,6,7,10,11]:
    x = xp.asarray(np.arange(float(n)), chunks=(1,), spec=spec)
    t(f"cumsum nchunks={n}", lambda: np.array_equal(xp.cumulative_sum(x).compute(executor=ex), np.cumsum(np.arange(float(n)))))
# qr 9x4
A = np.random.default_rng(0).random((9,4))
def qr():
    q,r = xp.linalg.qr(xp.asarray(A, chunks=(4,4), spec=spec))
    Q,R = cubed.compute(q,r, executor=ex)
    return np.allclose(Q@R, A)
t("qr 9x4", qr)
# searchsorted explicit spec
t("searchsorted", lambda: xp.searchsorted(xp.asarray(np.arange(8.), chunks=(4,), spec=spec), xp.asarray(np.array([2.5,6.]), chunks=(2,), spec=spec)).compute(executor=ex))
# to_zarr after derive
def tz():
    x = xp.asarray(np.arange(8.), chunks=(4,), spec=spec)
    y = xp.negative(x)   # lazy computed
    w = xp.add(y, 1.0)   # derived from y before to_zarr
    st = MemoryStore()
    cubed.to_zarr(y, st, executor=ex)
    return w.compute(executor=ex)
t("derive-then-to_zarr", tz)
# store [x,x]
def sxx():
    x = xp.negative(xp.asarray(np.arange(8.), chunks=(4,), spec=spec))
    s1, s2 = MemoryStore(), MemoryStore()
    cubed.store([x,x],[s1,s2], executor=ex)
    out=[]
    for s in (s1,s2):
        try: out.append(zarr.open_array(s)[:])
        except Exception as e: out.append(type(e).__name__)
    return out
t("store [x,x]", sxx)
# store to existing zarr different chunking
def sdiff():
    x = xp.asarray(np.arange(16.), chunks=(2,), spec=spec)
    za = zarr.create_array(MemoryStore(), shape=(16,), dtype="f8", chunks=(8,))
    cubed.store(x, za, executor=ex)
    return za[:]
t("store diff chunking (seq)", sdiff)
# region store with different chunking
def rdiff():
    x = xp.asarray(np.arange(8.), chunks=(4,), spec=spec)
    za = zarr.create_array(MemoryStore(), shape=(16,), dtype="f8", chunks=(2,), fill_value=-1)
    cubed.store(x, za, regions=(slice(0,8),), executor=ex)
    return za[:]
t("region store diff chunking", rdiff)
