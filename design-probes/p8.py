import itertools, warnings, time, math
from math import prod
from cubed.vendor.rechunker.algorithm import multistage_rechunking_plan
from cubed.core.rechunk import multistage_regular_rechunking_plan
warnings.simplefilter("ignore")
def check(planf, shape, sc, tc, itemsize, min_mem, max_mem, regular):
    try:
        stages = planf(shape=shape, source_chunks=sc, target_chunks=tc, itemsize=itemsize, min_mem=min_mem, max_mem=max_mem)
    except ValueError as e:
        return "reject", None
    except BaseException as e:
        return "EXC "+type(e).__name__, str(e)[:80]
    probs=[]
    if not stages: probs.append("empty")
    # first read multiple of source
    r0=stages[0][0]
    for n,r,s in zip(shape,r0,sc):
        if False: probs.append(f"first read {r0} not multiple of source {sc}")
    wl=stages[-1][2]
    for n,w,t in zip(shape,wl,tc):
        if not (w % t ==0 or w==n): probs.append(f"last write {wl} not multiple of target {tc}")
    for i,(r,m,w) in enumerate(stages):
        for nm,c in (("read",r),("int",m),("write",w)):
            if itemsize*prod(c)>max_mem: probs.append(f"stage {i} {nm} {c} mem {itemsize*prod(c)} > {max_mem}")
        if any(x<1 for x in r+m+w): probs.append("nonpositive chunk")
        if any(x>n for x,n in zip(r,shape)) or any(x>n for x,n in zip(w,shape)): probs.append(f"chunk larger than shape {r} {w}")
        if i+1<len(stages) and stages[i+1][0]!=w: probs.append("chain break")
        if regular:
            # copy=r → stored int chunks m: r % m == 0 or r==n
            for n,a,b in zip(shape,r,m):
                if not (a % b==0 or a==n): probs.append(f"stage {i} read {r} not aligned with int {m}")
    return ("ok" if not probs else "BAD"), probs

t=time.time(); cnt=0; res={}
bad=[]
for n in range(1,25):
    for s in range(1,n+1):
        for tchunk in range(1,n+1):
            for itemsize in (1,8):
                for max_mem in sorted({itemsize*max(s,tchunk), itemsize*max(s,tchunk)*2, itemsize*n, itemsize*n*4}):
                    for min_mem in sorted({1, max(max_mem//20,1), max_mem//2, max_mem}):
                        for planf,reg in ((multistage_rechunking_plan,False),(multistage_regular_rechunking_plan,True)):
                            r,p=check(planf,(n,),(s,),(tchunk,),itemsize,min_mem,max_mem,reg); cnt+=1
                            res[r]=res.get(r,0)+1
                            if r not in("ok","reject") and len(bad)<15: bad.append((planf.__name__,n,s,tchunk,itemsize,min_mem,max_mem,r,p))
print(cnt, time.time()-t, res)
for b in bad: print(b)
# 2-D
t=time.time(); cnt=0; res={}; bad=[]
dims=range(1,6)
for shape in itertools.product(dims,dims):
    for sc in itertools.product(*[range(1,n+1) for n in shape]):
        for tc in itertools.product(*[range(1,n+1) for n in shape]):
            itemsize=4
            base=itemsize*max(prod(sc),prod(tc))
            for max_mem in (base, base*2, itemsize*prod(shape)):
                for min_mem in (1, max(max_mem//3,1), max_mem):
                    for planf,reg in ((multistage_rechunking_plan,False),(multistage_regular_rechunking_plan,True)):
                        r,p=check(planf,shape,sc,tc,itemsize,min_mem,max_mem,reg); cnt+=1
                        res[r]=res.get(r,0)+1
                        if r not in("ok","reject") and len(bad)<15: bad.append((planf.__name__,shape,sc,tc,itemsize,min_mem,max_mem,r,p))
print(cnt, time.time()-t, res)
for b in bad: print(b)
