import sys, numpy as np, cloudpickle, cubed, cubed.array_api as xp
spec=cubed.Spec(work_dir=sys.argv[1], allowed_mem=100000)
x=xp.asarray(np.arange(8.)+1000, chunks=4, spec=spec)
y=xp.negative(x)
open(sys.argv[2],"wb").write(cloudpickle.dumps(y))
