import numpy as np, cubed, cubed.array_api as xp, zarr, warnings, asyncio
from zarr.storage import MemoryStore
from cubed.runtime.types import DagExecutor, Callback
from cubed.runtime.pipeline import visit_nodes
warnings.simplefilter("ignore")
MUT=[]
class T(MemoryStore):
    async def set(self,key,value,byte_range=None):
        MUT.append((key,value)); return await super().set(key,value,byte_range)
    async def delete(self,key):
        MUT.append((key,None)); return await super().delete(key)
class CE(DagExecutor):
    name="ce"
    def execute_dag(self,dag,callbacks=None,spec=None,compute_id=None,**kw):
        self.ran=[]
        for name,node in visit_nodes(dag):
            p=node["pipeline"]; self.ran.append(name)
            for m in p.mappable: p.function(m,config=p.config)
A=np.arange(24.).reshape(4,6)
def build(spec):
    a=xp.asarray(A,chunks=(2,3),spec=spec)
    b=xp.negative(a); c=xp.sum(b,axis=0); d=xp.add(c, 1.0)
    return d
st=T(); spec=cubed.Spec(intermediate_store=st, allowed_mem=100000)
d=build(spec); ex=CE()
ref=d.compute(executor=ex, optimize_graph=False)
log=list(MUT); print("mutations",len(log), "ops", ex.ran)
outcomes={}
for k in range(len(log)+1):
    st2=T(); 
    for key,val in log[:k]:
        asyncio.run(MemoryStore.set(st2,key,val)) if val is not None else None
    spec2=cubed.Spec(intermediate_store=st2, allowed_mem=100000)
    # need same array names: rebuild resets? names differ => instead reuse same arrays with store swapped: use same store object but restore content
    st._store_dict.clear()
    for key,val in log[:k]: st._store_dict[key]=val
    MUT.clear()
    ex2=CE()
    try:
        r=d.compute(executor=ex2, optimize_graph=False, resume=True)
        ok=np.array_equal(r,ref)
        dels=[m for m in MUT if m[1] is None]
        outcomes[k]=(ok, tuple(ex2.ran), len(dels))
    except Exception as e:
        outcomes[k]=("EXC "+type(e).__name__+str(e)[:60],)
for k,v in outcomes.items(): print(k, log[k-1][0] if k>0 else "-", v)
