import numpy as np, itertools
from cubed.primitive.blockwise import (general_blockwise, blockwise, fuse_multiple, fuse, ChunkKey, FunctionArgs,
    get_results_in_different_scope, make_blockwise_back_key_function_flattened)
from cubed.utils import normalize_chunks, get_item
class Term:
    __slots__=("t",)
    def __init__(self,*t): self.t=t
    def __eq__(self,o): return isinstance(o,Term) and self.t==o.t
    def __hash__(self): return hash(self.t)
    def __repr__(self): return "T"+repr(self.t)
def val(x): return x.item() if isinstance(x,np.ndarray) else x
def box(t):
    a=np.empty((),dtype=object); a[()]=t; return a
class Sym:
    """duck array of provenance terms: one term per block"""
    def __init__(self, name, shape, chunks, blocks=None):
        self.name=name; self.shape=shape; self.chunks=chunks; self.dtype=np.dtype("f8")
        self.nchunks = normalize_chunks(chunks, shape=shape, dtype=self.dtype)
        self.blocks = blocks if blocks is not None else {}
    def __getitem__(self, sel):
        # map slices back to block coords
        starts=[np.cumsum((0,)+c) for c in self.nchunks]
        coords=tuple(int(np.searchsorted(st, s.start)) for st,s in zip(starts,sel))
        return box(self.blocks.get(coords, Term("blk", self.name, coords)))
def lazyname(i): return f"t{i}"
# two ops: op1 = f(a) 1-1 ; op2 = g(list of op1 blocks along axis 1) contraction  via index notation
a=Sym("a",(4,6),(2,2))
def F(x): return box(Term("F",val(x)))
def G(xs): return ("G",("list",)+tuple(xs)) if isinstance(xs,list) else ("G",xs)
op1=blockwise(F,"ij",a,"ij",allowed_mem=10**6,reserved_mem=0,target_store="mem://x",target_name="t1",shape=(4,6),dtype=np.dtype("f8"),chunks=((2,2),(2,2,2)),in_names=["a"])
t1=Sym("t1",(4,6),(2,2))
def kf_list(out_key):
    i,=out_key.coords
    return FunctionArgs([ChunkKey("t1",(i,j)) for j in range(3)], output_name=out_key.name)
def kf_iter(out_key):
    i,=out_key.coords
    return FunctionArgs(iter([ChunkKey("t1",(i,j)) for j in range(3)]), output_name=out_key.name)
import sys
kf = kf_iter if len(sys.argv)>1 else kf_list
def G(xs): return box(Term("G",Term("list",*map(val,xs)))) if isinstance(xs,list) else box(Term("G",Term("iter",*map(val,xs))))
op2=general_blockwise(G,kf,t1,allowed_mem=10**6,reserved_mem=0,target_stores=["mem://x"],target_names=["t2"],shapes=[(4,)],dtypes=[np.dtype("f8")],chunkss=[((2,2),)],in_names=["t1"],num_input_blocks=(3,))
# unfused evaluation
for coords in op1.pipeline.mappable:
    t1.blocks[tuple(coords)] = val(get_results_in_different_scope(coords, config=op1.pipeline.config))
unf={tuple(c): val(get_results_in_different_scope(c, config=op2.pipeline.config)) for c in op2.pipeline.mappable}
fused=fuse_multiple(op2, op1)
fu={tuple(c): val(get_results_in_different_scope(c, config=fused.pipeline.config)) for c in fused.pipeline.mappable}
print(unf[(0,)]); print(fu[(0,)]); print("equal", unf==fu)
