import numpy as np, cubed, cubed.array_api as xp, zarr, re, itertools, traceback, warnings
from zarr.storage import MemoryStore
from cubed.runtime.types import DagExecutor, Callback
from cubed.runtime.pipeline import visit_nodes
warnings.simplefilter("ignore")
CUR=[None]; LOG=[]; WR=[]
class T(MemoryStore):
    async def get(self,key,prototype=None,byte_range=None):
        r=await super().get(key,prototype,byte_range); LOG.append((CUR[0],"get",key,r is not None)); return r
    async def set(self,key,value,byte_range=None):
        LOG.append((CUR[0],"set",key,len(value))); return await super().set(key,value,byte_range)
    async def delete(self,key):
        LOG.append((CUR[0],"delete",key,None)); return await super().delete(key)
_orig=zarr.Array.__setitem__
def _set(self, sel, value):
    try:
        import numpy as np
        shape=self.shape
        if not isinstance(sel, tuple): sel=(sel,)
        reg=tuple(len(range(*s.indices(n))) for s,n in zip(sel,shape)) if all(isinstance(s,slice) for s in sel) else None
        WR.append((CUR[0], self.path, reg, np.shape(value)))
    except Exception as e: WR.append((CUR[0],"ERR",repr(e),None))
    return _orig(self, sel, value)
zarr.Array.__setitem__=_set
class CE(DagExecutor):
    name="ce"
    def execute_dag(self,dag,callbacks=None,spec=None,compute_id=None,**kw):
        self.ops=[]
        for name,node in visit_nodes(dag):
            p=node["pipeline"]; ms=list(p.mappable); self.ops.append((name,node["primitive_op"].num_tasks,len(ms)))
            for i,m in enumerate(ms):
                CUR[0]=(name,i)
                try: p.function(m,config=p.config)
                finally: CUR[0]=None
def is_chunk(k): return re.search(r"(^|/)c(/|$)",k) is not None
def analyse():
    probs=[]
    writers={}
    for t,op,k,_ in LOG:
        if op=="set" and is_chunk(k) and t is not None: writers.setdefault(k,[]).append(t)
    for k,ts in writers.items():
        if len(ts)!=1: probs.append(f"key {k} written {len(ts)} times by {sorted(set(map(str,ts)))[:3]}")
    seen_set=set()
    for t,op,k,hit in LOG:
        if op=="set": seen_set.add(k)
        if op=="get" and is_chunk(k) and t is not None and k in writers and t in writers[k] and k not in seen_set: probs.append(f"RMW read of {k} by {t}")
        if op=="get" and is_chunk(k) and t is not None and k in writers and not hit: probs.append(f"miss on {k} by {t}")
    for t,path,reg,vs in WR:
        if reg is not None and tuple(reg)!=tuple(vs): probs.append(f"block shape {vs} into region {reg} of {path} by {t}")
    return probs
def run(name, build, ref=None, optimize=True):
    LOG.clear(); WR.clear()
    st=T(); spec=cubed.Spec(intermediate_store=st, allowed_mem=200000)
    try:
        arrs=build(spec)
        if not isinstance(arrs,(tuple,list)): arrs=(arrs,)
        ex=CE()
        res=cubed.compute(*arrs, executor=ex, optimize_graph=optimize)
    except Exception as e:
        print(f"{name:28s} EXC {type(e).__name__}: {str(e)[:90]}"); return
    probs=analyse()
    cnt=[o for o in ex.ops if o[1]!=o[2]]
    if cnt: probs.append(f"num_tasks mismatch {cnt}")
    for a,r in zip(arrs,res):
        if tuple(a.shape)!=tuple(r.shape) or a.dtype!=r.dtype: probs.append(f"declared {a.shape}/{a.dtype} vs {r.shape}/{r.dtype}")
    ok = True
    if ref is not None:
        exp=ref()
        if not isinstance(exp,(tuple,list)): exp=(exp,)
        for r,e in zip(res,exp):
            if r.shape!=np.shape(e) or not np.allclose(r,e,equal_nan=True): ok=False
    print(f"{name:28s} {'OK ' if ok else 'MISMATCH'} probs={probs[:3]} nprob={len(probs)}")
A=np.arange(35.).reshape(5,7)+1; B=np.arange(35.).reshape(5,7)*3+100
def a(spec,c=(2,3)): return xp.asarray(A,chunks=c,spec=spec)
def b(spec,c=(3,2)): return xp.asarray(B,chunks=c,spec=spec)
for opt in (True,False):
    print("optimize",opt)
    run("sub diffchunks", lambda s: xp.subtract(a(s),b(s)), lambda: A-B, opt)
    run("sum axis0", lambda s: xp.sum(a(s,(1,3)),axis=0), lambda: A.sum(0), opt)
    run("mean", lambda s: xp.mean(a(s,(1,2)),axis=1), lambda: A.mean(1), opt)
    run("var", lambda s: xp.var(a(s,(1,2)),axis=1), lambda: A.var(1), opt)
    run("argmax", lambda s: xp.argmax(a(s,(2,2)),axis=1), lambda: A.argmax(1), opt)
    run("concat", lambda s: xp.concat([a(s),b(s,(2,3))],axis=0), lambda: np.concatenate([A,B],0), opt)
    run("stack same", lambda s: xp.stack([a(s),b(s,(2,3))],axis=1), lambda: np.stack([A,B],1), opt)
    run("slice step", lambda s: a(s)[1:5:2, ::3], lambda: A[1:5:2,::3], opt)
    run("neg step", lambda s: a(s)[::-2, 1:], lambda: A[::-2,1:], opt)
    run("int array idx", lambda s: a(s)[[4,0,2],:], lambda: A[[4,0,2],:], opt)
    run("transpose", lambda s: xp.permute_dims(a(s),(1,0)), lambda: A.T, opt)
    run("reshape", lambda s: xp.reshape(a(s,(2,7)),(7,5)), lambda: A.reshape(7,5), opt)
    run("rechunk", lambda s: a(s,(1,7)).rechunk((5,1)), lambda: A, opt)
    run("roll", lambda s: xp.roll(a(s),2,axis=1), lambda: np.roll(A,2,1), opt)
    run("repeat", lambda s: xp.repeat(a(s),2,axis=0), lambda: np.repeat(A,2,0), opt)
    run("flip", lambda s: xp.flip(a(s),axis=1), lambda: np.flip(A,1), opt)
    run("matmul", lambda s: xp.matmul(a(s),xp.permute_dims(b(s),(1,0))), lambda: A@B.T, opt)
    run("tensordot", lambda s: xp.tensordot(a(s),b(s,(2,3)),axes=((0,1),(0,1))), lambda: np.tensordot(A,B,((0,1),(0,1))), opt)
    run("unstack", lambda s: xp.unstack(a(s),axis=0), lambda: tuple(A), opt)
    run("qr ok", lambda s: tuple(xp.linalg.qr(xp.asarray(np.arange(48.).reshape(12,4)**1.5, chunks=(4,4),spec=s))), None, opt)
    run("cumsum", lambda s: xp.cumulative_sum(a(s,(1,3)),axis=0), lambda: A.cumsum(0), opt)
    run("searchsorted-like where", lambda s: xp.where(a(s)>10, a(s), b(s)), lambda: np.where(A>10,A,B), opt)
    run("broadcast_to", lambda s: xp.broadcast_to(xp.asarray(A[0],chunks=3,spec=s),(4,7)), lambda: np.broadcast_to(A[0],(4,7)), opt)
    run("expand_dims", lambda s: xp.expand_dims(a(s),axis=1), lambda: A[:,None,:], opt)
    run("tril", lambda s: xp.tril(a(s)), lambda: np.tril(A), opt)
    run("pad", lambda s: cubed.pad(a(s),((1,2),(0,0)),mode="constant"), lambda: np.pad(A,((1,2),(0,0))), opt)
    run("map_overlap", lambda s: cubed.map_overlap(lambda x: x, a(s), dtype=A.dtype, chunks=((4,5),(5,6,3)) , depth=1, boundary=0), None, opt)
    run("nanmean", lambda s: cubed.nanmean(a(s),axis=0), lambda: np.nanmean(A,0), opt)
    run("outer", lambda s: xp.linalg.outer(xp.asarray(A[0],chunks=3,spec=s), xp.asarray(B[1],chunks=2,spec=s)), lambda: np.outer(A[0],B[1]), opt)
    run("arange/linspace", lambda s: (xp.arange(0,11,2,chunks=4,spec=s), xp.linspace(0,1,7,chunks=3,spec=s)), lambda: (np.arange(0,11,2), np.linspace(0,1,7)), opt)
    run("eye", lambda s: xp.eye(5,7,k=1,chunks=(2,2),spec=s), lambda: np.eye(5,7,k=1), opt)
    run("random", lambda s: cubed.random.random((5,7),chunks=(2,3),spec=s), None, opt)
    run("svd", lambda s: tuple(xp.linalg.svd(xp.asarray(np.arange(48.).reshape(12,4)**1.5, chunks=(4,4),spec=s), full_matrices=False)), None, opt)
