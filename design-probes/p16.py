import numpy as np, cubed, cubed.array_api as xp, warnings
from zarr.storage import MemoryStore
from cubed.runtime.create import create_executor
warnings.simplefilter("ignore")
ex=create_executor("single-threaded")
spec=cubed.Spec(intermediate_store=MemoryStore(), allowed_mem=1000000)
rng=np.random.default_rng(1)
res={}
for m in range(1,10):
    for n in range(1,5):
        for cr in range(1,m+1):
            A=rng.random((m,n))
            try:
                q,r=xp.linalg.qr(xp.asarray(A,chunks=(cr,n),spec=spec))
            except Exception as e:
                res[(m,n,cr)]="build "+type(e).__name__; continue
            try:
                Q,R=cubed.compute(q,r,executor=ex)
                ok=np.allclose(Q@R,A) and Q.shape==q.shape and R.shape==r.shape
                res[(m,n,cr)]="ok" if ok else "WRONG"
            except Exception as e:
                res[(m,n,cr)]="exec "+type(e).__name__
from collections import Counter
print(Counter(res.values()))
bad=[k for k,v in res.items() if v!="ok"]
# characterise: min block rows < n ?
def blocks(m,cr): 
    b=[cr]*(m//cr)+([m%cr] if m%cr else []); return b
pred=[k for k in res if min(blocks(k[0],k[2]))<k[1]]
print("bad == {min block rows < n}:", set(bad)==set(pred), len(bad), len(pred))
print([ (k,res[k]) for k in sorted(set(bad)^set(pred))][:20])
print(Counter(res[k] for k in bad))
