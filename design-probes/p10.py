import tracemalloc, numpy as np, cubed, cubed.array_api as xp, zarr, warnings
from zarr.storage import MemoryStore
from cubed.runtime.types import DagExecutor
from cubed.runtime.pipeline import visit_nodes
warnings.simplefilter("ignore")
zarr.config.set({"async.concurrency":1,"threading.max_workers":1})
class MemExec(DagExecutor):
    name="mem"
    def __init__(self, measure): super().__init__(); self.rows=[]; self.measure=measure
    def execute_dag(self, dag, callbacks=None, spec=None, compute_id=None, **kw):
        for name,node in visit_nodes(dag):
            p=node["pipeline"]; op=node["primitive_op"]
            for m in p.mappable:
                if self.measure:
                    tracemalloc.start(); base=tracemalloc.get_traced_memory()[0]
                p.function(m, config=p.config)
                if self.measure:
                    cur,peak=tracemalloc.get_traced_memory(); tracemalloc.stop()
                    self.rows.append((name, node.get("op_name"), peak-base, op.projected_mem))
R=256_000
n=384
src=MemoryStore()
za=zarr.create_array(src, shape=(3*n+50,2*n+30), dtype="f8", chunks=(n,n), compressors=None)
za[:]=np.arange((3*n+50)*(2*n+30),dtype="f8").reshape(3*n+50,2*n+30)%977
def run(name, build, optimize=True, comp=None):
    worst=None
    for measure in (False,True):
        spec=cubed.Spec(intermediate_store=MemoryStore(), allowed_mem="400MB", reserved_mem=R, zarr_compressor=comp)
        a=cubed.from_zarr(src, spec=spec)
        try:
            out=build(a,spec)
            if not isinstance(out,(tuple,list)): out=(out,)
            ex=MemExec(measure)
            cubed.compute(*out, executor=ex, optimize_graph=optimize, _return_in_memory_array=False)
        except Exception as e:
            print(f"{name:22s} EXC {type(e).__name__} {str(e)[:80]}"); return
    worst=max(ex.rows, key=lambda r: r[2]/r[3])
    viol=[r for r in ex.rows if r[2]>r[3]]
    print(f"{name:22s} opt={optimize!s:5} tasks={len(ex.rows):3d} worst ratio={worst[2]/worst[3]:.2f} ({worst[0]} {worst[1]} peak={worst[2]} proj={worst[3]}) violations={len(viol)}")
for opt in (True, False):
    run("negative", lambda a,s: xp.negative(a), opt)
    run("add(a,a.T.T)", lambda a,s: xp.add(a, xp.negative(a)), opt)
    run("sum axis0", lambda a,s: xp.sum(a,axis=0), opt)
    run("sum all", lambda a,s: xp.sum(a), opt)
    run("mean axis1", lambda a,s: xp.mean(a,axis=1), opt)
    run("var", lambda a,s: xp.var(a,axis=0), opt)
    run("argmax", lambda a,s: xp.argmax(a,axis=0), opt)
    run("transpose", lambda a,s: xp.permute_dims(a,(1,0)), opt)
    run("concat", lambda a,s: xp.concat([a,a],axis=0), opt)
    run("stack", lambda a,s: xp.stack([a,a],axis=0), opt)
    run("slice offset", lambda a,s: a[7:, 5:], opt)
    run("slice step3", lambda a,s: a[::3, ::2], opt)
    run("flip", lambda a,s: xp.flip(a,axis=0), opt)
    run("roll", lambda a,s: xp.roll(a,5,axis=0), opt)
    run("repeat", lambda a,s: xp.repeat(a,2,axis=0), opt)
    run("rechunk", lambda a,s: a.rechunk((n//2, 2*n)), opt)
    run("matmul", lambda a,s: xp.matmul(a, xp.permute_dims(a,(1,0))), opt)
    run("cumsum", lambda a,s: xp.cumulative_sum(a,axis=1), opt)
    run("qr", lambda a,s: tuple(xp.linalg.qr(a[:3*n, :n])), opt)
    run("chain5", lambda a,s: xp.sqrt(xp.abs(xp.add(xp.multiply(xp.negative(a),a),a))), opt)
    run("where3", lambda a,s: xp.where(a>5, xp.negative(a), xp.abs(a)), opt)
    run("expand+bcast", lambda a,s: xp.add(a, a[0:1,:]), opt)
    run("astype i32 sum", lambda a,s: xp.sum(xp.astype(a, xp.int32), axis=0), opt)
run("negative zstd", lambda a,s: xp.negative(a), True, "auto")
run("sum zstd", lambda a,s: xp.sum(a,axis=0), True, "auto")
