import sys; sys.path.insert(0,'/tmp/proto')
import asyncio, time
from asyncio import events
from vloop import VLoop, VTime
import numpy as np, cubed, cubed.array_api as xp
import cubed.runtime.asyncio as cra
from zarr.storage import MemoryStore

st = MemoryStore()
spec = cubed.Spec(intermediate_store=st, allowed_mem=100000)
a = xp.asarray(np.arange(16.).reshape(4,4), chunks=(2,2), spec=spec)
b = xp.negative(a)
c = xp.sum(b, axis=0)
d = xp.add(c, xp.asarray(np.ones(4), chunks=(2,), spec=spec))
plan = d.plan(optimize_graph=False)
dag = plan.dag

def run(order_fn, parallel):
    loop = VLoop()
    cra.time = VTime(loop)
    pending = []   # (future, input, func, kwargs)
    log = []
    def create_futures_func(inputs, **kwargs):
        out=[]
        for i in inputs:
            f = loop.create_future()
            pending.append((f,i,kwargs))
            log.append(("submit", kwargs.get("name"), i))
            out.append((i,f))
        return out
    events._set_running_loop(loop)
    try:
        task = loop.create_task(cra.async_map_dag(create_futures_func, dag, callbacks=None, compute_arrays_in_parallel=parallel))
        steps=0
        while not task.done():
            loop.drain()
            if task.done(): break
            if pending:
                k = order_fn(len(pending))
                f,i,kw = pending.pop(k)
                res = kw["func"](i, config=kw["config"])
                log.append(("complete", kw.get("name"), i))
                f.set_result((res, dict(function_start_tstamp=0, function_end_tstamp=0)))
            else:
                if loop.next_timer() is None: raise RuntimeError("deadlock")
                loop.advance_to_next_timer()
            steps+=1
        task.result()
    finally:
        events._set_running_loop(None)
        cra.time = time
    return log

t=time.time()
log = run(lambda n: n-1, False)
print(time.time()-t)
for l in log: print(l)
t=time.time()
for _ in range(100): run(lambda n: 0, True)
print("per exec", (time.time()-t)/100)
print(d._read_stored())
