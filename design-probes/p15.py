import numpy as np, cubed, cubed.array_api as xp, zarr, warnings, itertools, time, hashlib
from zarr.storage import MemoryStore
from cubed.runtime.create import create_executor
warnings.simplefilter("ignore")
ex=create_executor("single-threaded")
XN=np.arange(8.)+1; ZN=np.arange(8.)*10+5
def fresh():
    st=MemoryStore(); spec=cubed.Spec(intermediate_store=st, allowed_mem=100000)
    zs=MemoryStore(); za=zarr.create_array(zs, shape=(8,), dtype="f8", chunks=(4,)); za[:]=ZN
    x=xp.asarray(XN.copy(), chunks=4, spec=spec); z=cubed.from_zarr(zs, spec=spec)
    y=xp.add(x,1.0)
    pool=[("x",x,XN.copy()),("z",z,ZN.copy()),("y",y,XN+1)]
    return dict(spec=spec, pool=pool, targets=[], zsrc=za, xsrc=XN.copy())
def events(state):
    n=len(state["pool"]); ev=[]
    if n<5:
        for i in range(n): ev.append(("neg",i))
        for i in range(n):
            for j in range(n): 
                if i!=j: ev.append(("sub",i,j))
        for i in range(n): ev.append(("sum",i))
    for i in range(n):
        for opt in (True,False): ev.append(("compute",i,opt))
    ev.append(("compute_all",True))
    for i in range(n):
        for tk in ("new","same","diff"):
            for eager in (True,False): ev.append(("store",i,tk,eager))
    return ev
def apply(state, e):
    pool=state["pool"]; probs=[]
    if e[0]=="neg": nm,a,v=pool[e[1]]; pool.append((f"neg({nm})", xp.negative(a), -v))
    elif e[0]=="sub": (n1,a,v),(n2,b,w)=pool[e[1]],pool[e[2]]; 
    if e[0]=="sub":
        if v.shape!=w.shape: return ["skip"]
        pool.append((f"sub({n1},{n2})", xp.subtract(a,b), v-w))
    elif e[0]=="sum": nm,a,v=pool[e[1]]; pool.append((f"sum({nm})", xp.sum(a), np.asarray(v.sum())))
    elif e[0]=="compute":
        nm,a,v=pool[e[1]]; r=a.compute(executor=ex, optimize_graph=e[2])
        if not np.array_equal(r,v): probs.append(f"compute {nm} = {r} expected {v}")
    elif e[0]=="compute_all":
        rs=cubed.compute(*[a for _,a,_ in pool], executor=ex)
        for (nm,a,v),r in zip(pool,rs):
            if not np.array_equal(r,v): probs.append(f"compute_all {nm} = {r} expected {v}")
    elif e[0]=="store":
        nm,a,v=pool[e[1]]
        if v.ndim==0: return ["skip"]
        ts=MemoryStore()
        if e[2]=="new": tgt=ts
        else:
            tgt=zarr.create_array(ts, shape=v.shape, dtype="f8", chunks=(4,) if e[2]=="same" else (8,), fill_value=-7.0); tgt[:]=-7
        if e[3]: cubed.store(a,tgt,executor=ex)
        else:
            (lz,)=cubed.store(a,tgt,compute=False); lz.compute(executor=ex)
        state["targets"].append((ts,v.copy(),nm))
    # invariants after each event
    if not np.array_equal(state["zsrc"][:],ZN): probs.append("zarr source modified")
    if not np.array_equal(XN, state["xsrc"]): probs.append("x modified")
    for ts,v,nm in state["targets"]:
        try:
            got=zarr.open_array(ts)[:]
            if not np.array_equal(got,v): probs.append(f"target of {nm} holds {got} expected {v}")
        except Exception as ex_: probs.append(f"target of {nm} unreadable {type(ex_).__name__}")
    return probs
def replay(hist):
    st=fresh()
    for e in hist:
        try: p=apply(st,e)
        except Exception as ex_: p=[f"EXC {type(ex_).__name__}: {str(ex_)[:60]}"]
        if p==["skip"]: return None,None
        if p: return st,p
    return st,[]
t=time.time(); frontier=[[]]; total=0; bad={}
for depth in range(1,4):
    nxt=[]
    for h in frontier:
        st,_=replay(h)
        for e in events(st):
            total+=1
            s2,p=replay(h+[e])
            if s2 is None: continue
            if p:
                key=p[0][:50]; bad.setdefault(key,(h+[e],p[0]))
            else:
                # only extend histories whose last event changed something / derive events limited at depth
                nxt.append(h+[e])
    print("depth",depth,"histories",total,"time %.1f"%(time.time()-t),"violation classes",len(bad))
    frontier=nxt
    if depth==2: break
for k,(h,p) in list(bad.items())[:12]: print(h,"=>",p[:110])
