import numpy as np, cubed, cubed.array_api as xp, warnings
from zarr.storage import MemoryStore
from cubed.runtime.create import create_executor
warnings.simplefilter("ignore")
ex=create_executor("single-threaded")
spec=cubed.Spec(intermediate_store=MemoryStore(), allowed_mem=1000000)
bad=[]
for n in range(1,40):
    for c in (1,2,3):
        a=np.arange(float(n))+1
        try:
            r=xp.cumulative_sum(xp.asarray(a,chunks=c,spec=spec)).compute(executor=ex)
            if not np.array_equal(r,np.cumsum(a)): bad.append((n,c,"WRONG"))
        except Exception as e: bad.append((n,c,type(e).__name__))
print("1-D bad:",bad[:10],len(bad))
bad=[]
A=np.arange(7*9.).reshape(7,9)+1
for c0 in range(1,8):
    for c1 in (1,2,9):
        for ax in (0,1):
            try:
                r=xp.cumulative_sum(xp.asarray(A,chunks=(c0,c1),spec=spec),axis=ax).compute(executor=ex)
                if not np.array_equal(r,np.cumsum(A,axis=ax)): bad.append((c0,c1,ax,"WRONG"))
            except Exception as e: bad.append((c0,c1,ax,type(e).__name__))
print("2-D bad:",bad[:10],len(bad))
