#!/bin/bash
# Offline setup: nothing is installed; creates output dirs, byte-compiles the
# harness and runs the seam + schema self-tests.
set -e
cd "$(dirname "$0")"
mkdir -p evidence replays
/venv/bin/python -W ignore -m compileall -q vkit >/dev/null
/venv/bin/python -W ignore -m vkit.selftest
