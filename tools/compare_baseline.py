#!/venv/bin/python
"""Compare a junit xml of the repository's test suite with BASELINE.json's stable_pass set."""
import json, sys, xml.etree.ElementTree as ET
b = json.load(open("/root/.vp/BASELINE.json"))
stable = set(b["stable_pass"])
res = {}
for tc in ET.parse(sys.argv[1]).getroot().iter("testcase"):
    tid = f"{tc.get('classname')}::{tc.get('name')}"
    bad = any(ch.tag in ("failure", "error") for ch in tc)
    skip = any(ch.tag == "skipped" for ch in tc)
    res[tid] = "fail" if bad else ("skip" if skip else "pass")
missing = [t for t in stable if t not in res]
notpass = [t for t in stable if res.get(t) not in ("pass",)]
print(f"stable={len(stable)} passed={sum(1 for t in stable if res.get(t)=='pass')} not-passing={len(notpass)} missing={len(missing)}")
for t in notpass[:30]:
    print("  NOT PASS:", t, res.get(t))
sys.exit(1 if notpass else 0)
