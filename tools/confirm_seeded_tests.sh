#!/bin/bash
# For each seeded change given as argument (default: all without tests.txt): apply it in a scratch worktree and run the
# upstream test files that exercise the touched code plus the core files; write seeded/<id>/tests.txt.
cd "$(dirname "$0")/.."
WT=/tmp/confirm_wt_$$
git -C /repo worktree add -q $WT HEAD || exit 1
trap 'git -C /repo worktree remove --force $WT; git -C /repo worktree prune' EXIT
ids=${@:-$(ls seeded | { [ -n "$CONFIRM_REVERSE" ] && sort -r || cat; })}
for id in $ids; do
  d=seeded/$id
  [ -f $d/patch.diff ] || continue
  [ -f $d/tests.txt ] && continue
  (cd $WT && git checkout -q -- . && git apply $OLDPWD/$d/patch.diff) || { echo "patch failed to apply on HEAD" > $d/tests.txt; continue; }
  (cd $WT && PYTHONPATH=$WT timeout 3000 /venv/bin/python -m pytest -q -p no:cacheprovider --timeout=900 -n ${CONFIRM_N:-6} \
      cubed/tests/test_core.py cubed/tests/test_array_api.py cubed/tests/test_optimization.py cubed/tests/runtime \
      cubed/tests/test_executor_features.py cubed/tests/test_rechunk.py cubed/tests/test_store.py cubed/tests/primitive cubed/tests/storage \
      cubed/tests/test_linalg.py cubed/tests/test_indexing.py cubed/tests/test_utils.py cubed/tests/test_random.py cubed/tests/test_gufunc.py \
      -k "not spark" 2>&1 | tail -4) > $d/tests.txt.part
  mv $d/tests.txt.part $d/tests.txt
  (cd $WT && git checkout -q -- . && git clean -fdq)
  echo "$id: $(tail -1 $d/tests.txt)"
done
