#!/venv/bin/python
"""Regenerates MANIFEST.json from the table below (keep in sync with vkit/checks)."""
import json, os, sys
ROOT = os.path.dirname(os.path.dirname(os.path.abspath(__file__)))

BASELINE_OFF = "cd /repo && env -u CUBED_VERIF /venv/bin/python -m pytest -ra -q -p no:cacheprovider --timeout=900 --continue-on-collection-errors --junitxml=/tmp/baseline_off.junit.xml"

CHECKS = {
 "C08": dict(
  category="model_checking", design_ref="DESIGN.md 4/C08, 3.4, 3.5",
  engine="vsched",
  technique="stateless deviation-bounded DFS over completion/failure/timer schedules of the real async_map_unordered on a virtual event loop, with state-fingerprint pruning; exhaustive enumeration of retry and storage-fault sequences",
  text="Every execution of the real async_map_unordered (scripted futures, owned clock and wait() order) within the stated deviation bound is run and judged by a reference model of the statement (terminates; finishes iff every input succeeded, each delivered exactly once; raises only a task's own error when that input can no longer succeed; <=2 submissions). Retry wrapper, backup policy and end-to-end fault sequences on the real threads/single-threaded executors are enumerated completely. Bounded, not a proof: <=3 free stragglers, <=3 timer advances.",
  note="Trusts: the virtual loop faithfully runs asyncio futures/tasks (stock asyncio Task/Future on a BaseEventLoop subclass); prompt inputs are symmetric; OS-thread timing inside ThreadPoolExecutor is not explored (end-to-end verdicts are timing independent)."),
}

CHECKS.update({
 "C01": dict(
  category="exploration", design_ref="DESIGN.md 4/C01, 3.1", engine="smallscope",
  technique="exhaustive small-scope enumeration (every shape x regular chunking x parameter tuple x optimize on/off per catalogued operation; every program up to N op nodes with shared sub-terms) against NumPy",
  text="Every public array function (85 catalogue entries covering the array API, linalg, nan*, map_blocks/map_overlap/apply_gufunc/pad/rechunk, random, operators, indexing) is evaluated for every geometry and parameter tuple of the tier, operands chunked independently, optimize_graph on and off, plus every composition (DAG with sharing / several outputs) up to 2 (quick) or 3 (thorough) op nodes, and an executor slice on the real threads/single-threaded/processes executors; each result is compared with NumPy. Complete within the stated bounds, nothing sampled.",
  note="Small-scope hypothesis: shapes <= 7 per dim (scans to 27), <= 4 dims; NumPy is the oracle (exact, allclose for floating statistics, invariants for qr/svd); dtype x geometry is not a full product."),
 "C12": dict(
  category="exploration", design_ref="DESIGN.md 4/C12", engine="smallscope",
  technique="exhaustive small-scope enumeration with a per-task block-write monitor and storage metadata read-back",
  text="For every computation of the C01 space: declared shape/dtype/chunks before compute equal the computed result and the backing Zarr arrays of every array in the executed plan, and every zarr write issued by every task has value.shape == region shape (no silent broadcast).",
  note="Writes are observed by wrapping zarr.Array.__setitem__ on the harness side; structured intermediates are checked per field."),
 "C17": dict(
  category="exploration", design_ref="DESIGN.md 4/C17", engine="smallscope",
  technique="exhaustive small-scope enumeration of the C01 space, classifying phase (build/plan/execute) and type of every exception",
  text="For every case NumPy evaluates: an exception while building/planning must be ValueError/TypeError/NotImplementedError/IndexError (subclasses included), and no exception may occur once the executor has been entered on a fault-free store.",
  note="EXEC phase = after DagExecutor.execute_dag was entered. map_overlap is enumerated only for depth <= smallest chunk (its contract beyond that is not defined by NumPy)."),
})

NOT_YET = {
}

def main():
    props = [json.loads(l) for l in open(os.path.join(ROOT, "properties.jsonl"))]
    checks = []
    na = []
    for p in props:
        pid = p["id"]
        c = CHECKS.get(pid)
        if c is None:
            na.append(dict(property_id=pid, reason=NOT_YET.get(pid, "check not built yet in this tree (planned in DESIGN.md section 4); nothing is claimed for it")))
            continue
        checks.append(dict(
            property_id=pid,
            quick_cmd=f"./check {pid} --tier quick",
            thorough_cmd=f"./check {pid} --tier thorough",
            evidence_file=f"/verif/evidence/{pid}.json",
            replay_cmd_template=f"./check {pid} --replay {{path}}",
            engine=c["engine"],
            level_claimed=dict(category=c["category"], text=c["text"], design_ref=c["design_ref"]),
            level_note=c["note"],
            technique=c["technique"],
        ))
    engines = [
        dict(name="smallscope", path="vkit/scope.py", serves_properties=[p for p in CHECKS if CHECKS[p]["engine"] == "smallscope"], kind_free_text="exhaustive small-scope enumeration of shapes x chunkings x parameters x programs against NumPy / reference models"),
        dict(name="cexec", path="vkit/cexec.py", serves_properties=[p for p in CHECKS if CHECKS[p]["engine"] == "cexec"], kind_free_text="choice-driven sequential executor over the real task bodies with tracing/overlay/fault store (schedule, duplicate and crash enumeration)"),
        dict(name="vsched", path="vkit/sched.py", serves_properties=[p for p in CHECKS if CHECKS[p]["engine"] == "vsched"], kind_free_text="stateless model checking of the real asyncio scheduler code on a virtual-time event loop (ChoiceDFS with fingerprint pruning)"),
        dict(name="histbfs", path="vkit/hist.py", serves_properties=[p for p in CHECKS if CHECKS[p]["engine"] == "histbfs"], kind_free_text="explicit-state BFS over API call histories replayed on fresh real objects"),
    ]
    man = dict(
        version=1,
        setup_cmd="./setup.sh",
        hooks=dict(guard="CUBED_VERIF", enable="none required: the harness drives public seams of the working tree (editable install of /repo); ./check exports CUBED_VERIF=1 but no source line reads it",
                   baseline_off_cmd=BASELINE_OFF, source_commits=[], add_only=True),
        engines=[e for e in engines if e["serves_properties"]],
        checks=checks,
        not_applicable=na,
        notes="All checks run /venv/bin/python against the editable install of /repo (current working tree). known_findings.json lists accepted defects by root-cause signature and the fix: commits made in /repo.",
    )
    with open(os.path.join(ROOT, "MANIFEST.json"), "w") as f:
        json.dump(man, f, indent=1)
    print("checks:", [c["property_id"] for c in checks], "n/a:", len(na))

main()
