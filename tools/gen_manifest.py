#!/venv/bin/python
"""Regenerates MANIFEST.json from the table below (keep in sync with vkit/checks)."""
import json, os, sys
ROOT = os.path.dirname(os.path.dirname(os.path.abspath(__file__)))

BASELINE_OFF = "cd /repo && env -u CUBED_VERIF /venv/bin/python -m pytest -ra -q -p no:cacheprovider --timeout=900 --continue-on-collection-errors --junitxml=/tmp/baseline_off.junit.xml"

CHECKS = {
 "C08": dict(
  category="model_checking", design_ref="DESIGN.md 4/C08, 3.4, 3.5",
  engine="vsched",
  technique="stateless deviation-bounded DFS over completion/failure/timer schedules of the real async_map_unordered on a virtual event loop, with state-fingerprint pruning; exhaustive enumeration of retry and storage-fault sequences",
  text="Every execution of the real async_map_unordered (scripted futures, owned clock and wait() order) within the stated deviation bound is run and judged by a reference model of the statement (terminates; finishes iff every input succeeded, each delivered exactly once; raises only a task's own error when that input can no longer succeed; <=2 submissions). Retry wrapper, backup policy and end-to-end fault sequences on the real threads/single-threaded executors are enumerated completely. Bounded, not a proof: <=3 free stragglers, <=3 timer advances.",
  note="Trusts: the virtual loop faithfully runs asyncio futures/tasks (stock asyncio Task/Future on a BaseEventLoop subclass); prompt inputs are symmetric; OS-thread timing inside ThreadPoolExecutor is not explored (end-to-end verdicts are timing independent)."),
}

CHECKS.update({
 "C01": dict(
  category="exploration", design_ref="DESIGN.md 4/C01, 3.1", engine="smallscope",
  technique="exhaustive small-scope enumeration (every shape x regular chunking x parameter tuple x optimize on/off per catalogued operation; every program up to N op nodes with shared sub-terms) against NumPy",
  text="Every public array function (85 catalogue entries covering the array API, linalg, nan*, map_blocks/map_overlap/apply_gufunc/pad/rechunk, random, operators, indexing) is evaluated for every geometry and parameter tuple of the tier, operands chunked independently, optimize_graph on and off, plus every composition (DAG with sharing / several outputs) up to 2 (quick) or 3 (thorough) op nodes, and an executor slice on the real threads/single-threaded/processes executors; each result is compared with NumPy. Complete within the stated bounds, nothing sampled.",
  note="Small-scope hypothesis: shapes <= 7 per dim (scans to 27), <= 4 dims; NumPy is the oracle (exact, allclose for floating statistics, invariants for qr/svd); dtype x geometry is not a full product."),
 "C12": dict(
  category="exploration", design_ref="DESIGN.md 4/C12", engine="smallscope",
  technique="exhaustive small-scope enumeration with a per-task block-write monitor and storage metadata read-back",
  text="For every computation of the C01 space: declared shape/dtype/chunks before compute equal the computed result and the backing Zarr arrays of every array in the executed plan, and every zarr write issued by every task has value.shape == region shape (no silent broadcast).",
  note="Writes are observed by wrapping zarr.Array.__setitem__ on the harness side; structured intermediates are checked per field."),
 "C17": dict(
  category="exploration", design_ref="DESIGN.md 4/C17", engine="smallscope",
  technique="exhaustive small-scope enumeration of the C01 space, classifying phase (build/plan/execute) and type of every exception",
  text="For every case NumPy evaluates: an exception while building/planning must be ValueError/TypeError/NotImplementedError/IndexError (subclasses included), and no exception may occur once the executor has been entered on a fault-free store.",
  note="EXEC phase = after DagExecutor.execute_dag was entered. map_overlap is enumerated only for depth <= smallest chunk (its contract beyond that is not defined by NumPy)."),
})
CHECKS.update({
 "C05": dict(
  category="exploration", design_ref="DESIGN.md 4/C05, 3.2, 3.3", engine="cexec",
  technique="exhaustive small-scope enumeration of computations on a controlled sequential executor over a tracing Zarr store; per-computation writer/coverage invariants on the attributed get/set trace",
  text="For every computation (catalogue geometries, programs, rechunk under memory budgets forcing 1-3 stages with regular and irregular grids, store/to_zarr into new/existing/differently chunked/sharded targets with regions, multi-output ops) each data-chunk key of each produced array is set exactly once by exactly one task, is not read by that task first, and the set keys equal the array's chunk grid (or the region's chunks).",
  note="Attribution relies on tasks running one at a time; read-before-write is not applied to sharded arrays (zarr reads an edge shard that it alone writes). The 'hence no lost updates' clause is demonstrated in C11 on the overlay executor."),
 "C07": dict(
  category="model_checking", design_ref="DESIGN.md 4/C07, 3.4, 3.5", engine="vsched",
  technique="stateless model checking of the real async_map_dag on a virtual event loop: DFS over completion orders with deviation bound and sound state-fingerprint pruning, under an extremal-latency overlay store",
  text="Every completion order (within the bound) of the tasks the real scheduler keeps running, for 6-12 API-built DAG shapes x optimize x sequential/parallel x batch sizes; tasks read at submission and their writes become visible only at completion, so a missing barrier shows as a read miss / stale read / wrong value in some explored schedule. Real single-threaded and threads executors replay each DAG as conformance.",
  note="Workers unbounded (over-approximates any max_workers); bound 2 (quick) / 3 (thorough) deviations from oldest-first completion; <= 4 tasks per op."),
 "C11": dict(
  category="exploration", design_ref="DESIGN.md 4/C11", engine="cexec",
  technique="exhaustive enumeration of store/to_zarr call scenarios, each run sequentially and under the overlay virtual executor with two extremal completion orders; plain-zarr read-back against NumPy + sentinel",
  text="Every scenario in sources x shapes x chunkings x target kinds (new path, path+group, existing array of every chunking, sharded) x regions (none, full, every aligned and misaligned offset, wrong extent) x eager/lazy x call shapes (one pair, several pairs, same source twice, same source to differently chunked targets): each target equals the source inside the region and the sentinel outside, or the call raised an explicit error before any target write.",
  note="1-d sizes <= 8, 2-d <= 4x4; overlay executor = reads at submission, writes visible at completion."),
 "C13": dict(
  category="exploration", design_ref="DESIGN.md 4/C13", engine="vsched",
  technique="deviation-bounded enumeration of completion orders of the real async_map_dag on a virtual loop plus runs on the real local executors, judged by a recording Callback against FinalizedPlan",
  text="For each program (multi-output, region store, multi-stage rechunk, fused/unfused, reduction, create-arrays only) x optimize x parallel x batch size: advertised num_tasks == len(mappable) == tasks run == task-end notifications per op; plan total == sum; one compute-start first / compute-end last; per op exactly one start and end around its task events.",
  note="Processes executor not run (shares async_map_dag with threads)."),
})
CHECKS.update({
 "C06": dict(
  category="model_checking", design_ref="DESIGN.md 4/C06, 3.3", engine="cexec",
  technique="exhaustive enumeration of task schedules (permutations, duplicate executions at every later position, pickled and fresh-interpreter placement) of real finalized plans on a controlled executor, comparing every stored byte with a reference run",
  text="For 16 (quick) / 35 (thorough) programs, fused and unfused: every permutation of the tasks of each op (<= 4 tasks; structured variants above), every single duplicate execution at every later schedule position incl. after downstream ops (pairs in thorough), each in-process and through a cloudpickle round trip, plus execution of every task by cubed's unpickle_and_call in a freshly spawned interpreter with duplicates. After each schedule all stores hold the reference bytes, repeated sets carry identical bytes, results equal NumPy; random arrays regenerate identically and blocks differ.",
  note="Schedules are total orders (true overlap of two tasks on one chunk is excluded by C05); states = distinct store contents after any task."),
 "C09": dict(
  category="fault_enumeration", design_ref="DESIGN.md 4/C09", engine="cexec",
  technique="exhaustive crash-point enumeration: the store is restored to every prefix of the clean run's mutation log (and every subset of completed tasks per op) and compute(resume=True) is run on the same lazy arrays",
  text="For 8 (quick) / 11 (thorough) programs x optimize on/off: every crash point at chunk-write granularity; resumed on the controlled and virtual executors (thorough: also with the other optimize setting): result equals the clean run or the plan is refused up front because its storage cannot report completeness; no delete, no pre-crash chunk lost; ops with an incomplete output run, ops whose outputs were complete do not (create-arrays and 0-d excepted).",
  note="A stored object is atomic (no torn write within one key)."),
})
CHECKS.update({
 "C02": dict(
  category="exploration", design_ref="DESIGN.md 4/C02", engine="smallscope",
  technique="exhaustive differential enumeration: every program x requested set x optimizer setting of a finite menu, optimized vs unoptimized values, plus storage read-back of every requested array",
  text="Every program (closure over 19 constructors incl. repeated arguments, shared sub-terms, multi-output unstack, reductions, selections, rechunk, concat/stack, map_blocks with block ids) up to 2/3 op nodes is computed with optimize_graph=False and under: default, fuse-all, legacy simple fusion, multiple-input fusion over a (max_total_source_arrays x max_total_num_input_blocks) grid incl. None, and every always_fuse/never_fuse/fuse_only subset; values must be identical and every requested array fully materialised with the returned contents.",
  note="Memory refusals under forced fusion are counted as declined (C04). Quick tier runs a deterministic partition of the program set (stated in evidence)."),
 "C14": dict(
  category="exploration", design_ref="DESIGN.md 4/C14", engine="smallscope",
  technique="exhaustive enumeration of planner inputs (shape, source chunks, target chunks, itemsize, min/max memory) against structural invariants, with a termination horizon; end-to-end rechunks on a sub-lattice with the single-writer trace invariant; exhaustive request-form enumeration; history-independence sweep (all requests on one array, forwards and backwards, against fresh-array answers)",
  text="Both planner functions are called for every 1-d n<=24/40, every 2-d shape with dims<=5/8, every 3-d shape with dims<=3/4, all chunk pairs, itemsizes and memory ladders straddling the admission boundaries (1.3M / ~20M calls): explicit ValueError/NotImplementedError or a chain-continuous stage list whose every chunk fits max_mem, is positive and within the shape, whose copy regions are whole chunks of the array they write, ending in whole target chunks; rechunk_plan starts at the source and ends at the requested chunks; x.rechunk(c) preserves values and declares exactly c.",
  note="Reads need not align with source chunks (a prototype showed that demanding it would be a false alarm)."),
 "C15": dict(
  category="exploration", design_ref="DESIGN.md 4/C15", engine="smallscope",
  technique="exhaustive enumeration of index expressions against a reference model of the index algebra (key functions directly, and through the public blockwise over lazy arrays for every sharing of arrays between argument positions); exhaustive enumeration of fusion trees evaluated symbolically through the real fuse/fuse_multiple/get_results_in_different_scope",
  text="(i) 44k/ ~1M index-expression instances (<=3 args over <=3/4 symbols, block counts {1,2,3}, broadcast variants, contraction, new axes): every output block's keys from the real key functions equal the reference, multi-block contraction is refused. (ii) every fusion tree of depth <=2/3 over seven key-function shapes (1-1, several args, list, stream, alternating, concatenating, multi-output), every subset of fusable predecessors: the provenance term of every output block equals unfused evaluation (same functions, blocks, positions, list/iterator structure).",
  note="Symbolic arrays have one element per block; fusion eligibility decisions of the optimizer are C02's."),
 "C16": dict(
  category="exploration", design_ref="DESIGN.md 4/C16", engine="smallscope",
  technique="exhaustive enumeration of input-construction/build/plan/visualize/repr calls over the catalogue and programs with tracing stores and a flagging executor",
  text="For every catalogue case (in-memory and Zarr inputs) and program: building, plan() optimized and not, and on a slice visualize/repr/_repr_html_/rechunk_plan enter no executor and issue no set/delete/data-chunk read on any store; the listed eager entry points (compute, eager store/to_zarr, __array__/__bool__/__int__/__float__/__complex__/__index__, indexing by a cubed array) do enter an executor, their lazy twins do not.",
  note="Metadata reads of input Zarr arrays at build time are not side effects."),
 "C18": dict(
  category="exploration", design_ref="DESIGN.md 4/C18", engine="smallscope",
  technique="exhaustive enumeration of (multi-array entry point x argument position x spec field x {explicit Spec, global configuration at creation time}) and of a size-literal grammar against exact rational arithmetic",
  text="88 multi-array entry points (every catalogued function with >=2 arrays, operators, index/take by array, compute/plan/visualize/store) x each position x 7 spec fields: ValueError or no returned plan containing both inputs. 3k/58k size literals: exact integer byte count or rejected, and read identically by Spec (allowed_mem under three reserved_mem settings; reserved_mem). Every primitive op of every catalogued operation's plan carries the Spec's allowed_mem/reserved_mem.",
  note="Any exception counts as rejecting a literal."),
 "C19": dict(
  category="exploration", design_ref="DESIGN.md 4/C19", engine="smallscope",
  technique="exhaustive enumeration of operations x twelve configuration variants (incl. one equal Spec object per input, one of them already used), comparing (phase, exception type, values)",
  text="Every catalogued operation (2/8 multi-block geometries each) and a program slice under: global default config, explicit equal Spec, other work_dir, store object, compressor None / explicit codec, reserved_mem, threads executor, larger allowed_mem: identical acceptance and values.",
  note="Real filesystem work_dirs under a per-case scratch directory; random/empty excluded (no defined values)."),
})
CHECKS.update({
 "C03": dict(
  category="exploration", design_ref="DESIGN.md 4/C03", engine="cexec",
  technique="exhaustive enumeration of (operation x large geometry x dtype x compressor x fused/unfused) with a per-task tracemalloc monitor on the controlled executor",
  text="28 (quick) / 51 (thorough) operations and fusable programs x {square, skinny, uneven last chunk} geometries at 0.3-1 MB chunks x optimize on/off (thorough: dtypes, compressor None): for every task of every op of the executed plan, peak traced allocation <= projected_mem with reserved_mem = 256 kB. Near-bound cases are measured twice and must agree.",
  note="Weakest fit to the family: a monitor over an enumerated space, at MB scale only; tracemalloc does not see native codec scratch memory."),
 "C04": dict(
  category="exploration", design_ref="DESIGN.md 4/C04", engine="smallscope",
  technique="exhaustive sweep of every integer allowed_mem across all admission boundaries x reserved_mem x optimizer settings, with store-trace checked runs at each boundary",
  text="For 33 (quick) / 150 (thorough) programs: every integer allowed_mem in [0, 2*P_max] x reserved_mem x {unoptimized, default, fuse-all, legacy}: the plan's admission decision equals an independent evaluation of projected_mem > allowed_mem; at p-1, p, p+1 of every op's projected memory the computation is run: refused => ValueError, executor never entered, no set/delete anywhere; admitted => values equal NumPy. Unoptimized fits => default-optimized fits; each fused op reports >= the projected memory of every op it replaced.",
  note="Tiny arrays (48-byte chunks) so that every integer budget can be swept."),
 "C10": dict(
  category="model_checking", design_ref="DESIGN.md 4/C10, 3.5", engine="histbfs",
  technique="explicit-state breadth-first search over API call histories replayed on fresh real objects, deduplicated by a canonical state, with a NumPy shadow and input/target checksums as invariants on every transition",
  text="From a pool {in-memory x, Zarr z, lazy y=x+1}: every event of an alphabet of ~50 (derive neg/sum/slice/rechunk/sub, compute with optimize/resume variants, compute of the whole pool, store/to_zarr of any array into new / same-chunked / differently chunked targets eager or lazy, default-executor change) from every distinct state to depth 2 (quick) / 3 (thorough), then store-containing histories extended by observing events one level further; every compute must return the value fixed at build time, inputs and earlier targets stay intact, declared chunks never change.",
  note="Pool bounded to 5 one-dimensional arrays; states are canonicalised on property-relevant fields only."),
 "C20": dict(
  category="model_checking", design_ref="DESIGN.md 4/C20", engine="histbfs",
  technique="exhaustive enumeration of two-interpreter scenarios (producer in a fresh interpreter, receiver with k pre-created names) x uses x optimize x (sender computed before shipping | receiver computed before loading), judged against NumPy",
  text="4 producer programs x receivers (same process; fresh interpreter having created k in {0,1,3} / {0..4,6} arrays and ops) x uses (alone, local-d, d-local, d with a second copy, d1-d2 from two producers, d with its original) x optimize: computed values equal NumPy.",
  note="One interpreter per scenario side; both sides use an equal Spec."),
})

NOT_YET = {
}

def main():
    props = [json.loads(l) for l in open(os.path.join(ROOT, "properties.jsonl"))]
    checks = []
    na = []
    for p in props:
        pid = p["id"]
        c = CHECKS.get(pid)
        if c is None:
            na.append(dict(property_id=pid, reason=NOT_YET.get(pid, "check not built yet in this tree (planned in DESIGN.md section 4); nothing is claimed for it")))
            continue
        checks.append(dict(
            property_id=pid,
            quick_cmd=f"./check {pid} --tier quick",
            thorough_cmd=f"./check {pid} --tier thorough",
            evidence_file=f"/verif/evidence/{pid}.json",
            replay_cmd_template=f"./check {pid} --replay {{path}}",
            engine=c["engine"],
            level_claimed=dict(category=c["category"], text=c["text"], design_ref=c["design_ref"]),
            level_note=c["note"],
            technique=c["technique"],
        ))
    engines = [
        dict(name="smallscope", path="vkit/scope.py", serves_properties=[p for p in CHECKS if CHECKS[p]["engine"] == "smallscope"], kind_free_text="exhaustive small-scope enumeration of shapes x chunkings x parameters x programs against NumPy / reference models"),
        dict(name="cexec", path="vkit/cexec.py", serves_properties=[p for p in CHECKS if CHECKS[p]["engine"] == "cexec"], kind_free_text="choice-driven sequential executor over the real task bodies with tracing/overlay/fault store (schedule, duplicate and crash enumeration)"),
        dict(name="vsched", path="vkit/sched.py", serves_properties=[p for p in CHECKS if CHECKS[p]["engine"] == "vsched"], kind_free_text="stateless model checking of the real asyncio scheduler code on a virtual-time event loop (ChoiceDFS with fingerprint pruning)"),
        dict(name="histbfs", path="vkit/hist.py", serves_properties=[p for p in CHECKS if CHECKS[p]["engine"] == "histbfs"], kind_free_text="explicit-state BFS over API call histories replayed on fresh real objects"),
    ]
    man = dict(
        version=1,
        setup_cmd="./setup.sh",
        hooks=dict(guard="CUBED_VERIF", enable="none required: the harness drives public seams of the working tree (editable install of /repo); ./check exports CUBED_VERIF=1 but no source line reads it",
                   baseline_off_cmd=BASELINE_OFF, source_commits=[], add_only=True),
        engines=[e for e in engines if e["serves_properties"]],
        checks=checks,
        not_applicable=na,
        notes="All checks run /venv/bin/python against the editable install of /repo (current working tree). known_findings.json lists accepted defects by root-cause signature and the fix: commits made in /repo.",
    )
    with open(os.path.join(ROOT, "MANIFEST.json"), "w") as f:
        json.dump(man, f, indent=1)
    print("checks:", [c["property_id"] for c in checks], "n/a:", len(na))

main()
