#!/venv/bin/python
"""Apply a seeded change to /repo, run its demonstration and the given checks, and undo it.

usage: tools/try_seeded.py <dir with patch.diff [demo.py]> [--checks C05,C11 | --all] [--tier quick] [--tests]
Prints one line per check: DETECTED / missed, and writes <dir>/result.json.
"""
import argparse, json, os, subprocess, sys, time

ROOT = os.path.dirname(os.path.dirname(os.path.abspath(__file__)))
ALL = [f"C{i:02d}" for i in range(1, 21)]


def sh(cmd, cwd=None, timeout=3600, env=None):
    r = subprocess.run(cmd, shell=True, cwd=cwd, capture_output=True, text=True, timeout=timeout, env=env)
    return r.returncode, r.stdout + r.stderr


def main():
    ap = argparse.ArgumentParser()
    ap.add_argument("dir")
    ap.add_argument("--checks", default="")
    ap.add_argument("--all", action="store_true")
    ap.add_argument("--tier", default="quick")
    ap.add_argument("--tests", action="store_true", help="also run the repository's stable test set with the change applied")
    ap.add_argument("--worktree", action="store_true", help="evaluate in a scratch worktree of /repo (PYTHONPATH) with evidence redirected; /repo and /verif/evidence stay untouched")
    a = ap.parse_args()
    if a.worktree:
        return main_worktree(a)
    d = os.path.abspath(a.dir)
    patch = os.path.join(d, "patch.diff")
    demo = os.path.join(d, "demo.py")
    rc, out = sh("git status --porcelain --untracked-files=no", cwd="/repo")
    if out.strip():
        sys.exit(f"/repo is not clean:\n{out}")
    res = dict(dir=d, tier=a.tier)
    if os.path.exists(demo):
        rc, out = sh(f"timeout 600 /venv/bin/python {demo}", cwd="/tmp")
        res["demo_clean_rc"] = rc
    rc, out = sh(f"git apply {patch}", cwd="/repo")
    if rc != 0:
        sys.exit(f"patch does not apply: {out}")
    try:
        if os.path.exists(demo):
            rc, out = sh(f"timeout 600 /venv/bin/python {demo}", cwd="/tmp")
            res["demo_mutant_rc"] = rc
            res["demo_mutant_tail"] = out[-600:]
        checks = ALL if a.all else [c for c in a.checks.split(",") if c]
        res["checks"] = {}
        for c in checks:
            t = time.time()
            rc, out = sh(f"./check {c} --tier {a.tier}", cwd=ROOT, timeout=7200)
            viol = [l for l in out.splitlines() if l.startswith("VIOLATION") or l.startswith("HARNESS-ERROR")]
            first = [l for l in out.splitlines() if l.startswith("  ")][:2]
            res["checks"][c] = dict(rc=rc, violations=len(viol), first=first, wall=round(time.time() - t, 1))
            print(f"{c}: {'DETECTED' if rc == 1 else ('HARNESS-ERROR' if rc == 2 else 'missed')} ({len(viol)} violation lines, {res['checks'][c]['wall']}s)")
            for l in first[:2]:
                print("     ", l[:300])
        if a.tests:
            rc, out = sh("env -u CUBED_VERIF /venv/bin/python -m pytest -q -p no:cacheprovider --timeout=900 -n 8 --continue-on-collection-errors --junitxml=/tmp/seeded.junit.xml -k 'not spark'", cwd="/repo", timeout=7200)
            rc2, out2 = sh(f"/venv/bin/python {ROOT}/tools/compare_baseline.py /tmp/seeded.junit.xml", cwd=ROOT)
            res["tests"] = out2.strip().splitlines()[:12]
            print("tests:", res["tests"][0] if res["tests"] else out[-300:])
    finally:
        sh(f"git apply -R {patch}", cwd="/repo")
        rc, out = sh("git status --porcelain --untracked-files=no", cwd="/repo")
        if out.strip():
            sh("git checkout -- .", cwd="/repo")
    print("demo: clean rc", res.get("demo_clean_rc"), "mutant rc", res.get("demo_mutant_rc"))
    json.dump(res, open(os.path.join(d, "result.json"), "w"), indent=1)


def main_worktree(a):
    import shutil, tempfile
    d = os.path.abspath(a.dir)
    patch = os.path.join(d, "patch.diff")
    demo = os.path.join(d, "demo.py")
    wt = tempfile.mkdtemp(prefix="seedwt_", dir="/tmp")
    out_dir = tempfile.mkdtemp(prefix="seedout_", dir="/tmp")
    os.rmdir(wt)
    rc, out = sh(f"git worktree add -q --detach {wt} HEAD", cwd="/repo")
    if rc != 0:
        sys.exit(out)
    res = dict(dir=d, tier=a.tier, mode="worktree")
    env = dict(os.environ, PYTHONPATH=wt, VERIF_OUT=out_dir)
    try:
        if os.path.exists(demo):
            rc, out = sh(f"timeout 600 /venv/bin/python {demo}", cwd="/tmp")
            res["demo_clean_rc"] = rc
        rc, out = sh(f"git apply {patch}", cwd=wt)
        if rc != 0:
            sys.exit(f"patch does not apply: {out}")
        rc, out = sh("/venv/bin/python -c 'import cubed; print(cubed.__file__)'", cwd="/tmp", env=env)
        assert out.strip().startswith(wt), out
        if os.path.exists(demo):
            rc, out = sh(f"timeout 600 /venv/bin/python {demo}", cwd="/tmp", env=env)
            res["demo_mutant_rc"] = rc
            res["demo_mutant_tail"] = out[-600:]
        checks = ALL if a.all else [c for c in a.checks.split(",") if c]
        res["checks"] = {}
        for c in checks:
            t = time.time()
            rc, out = sh(f"./check {c} --tier {a.tier}", cwd=ROOT, timeout=7200, env=env)
            viol = [l for l in out.splitlines() if l.startswith("VIOLATION") or l.startswith("HARNESS-ERROR")]
            first = [l for l in out.splitlines() if l.startswith("  ")][:2]
            res["checks"][c] = dict(rc=rc, violations=len(viol), first=first, wall=round(time.time() - t, 1))
            print(f"{c}: {'DETECTED' if rc == 1 else ('HARNESS-ERROR' if rc == 2 else 'missed')} ({len(viol)} violation lines, {res['checks'][c]['wall']}s)")
            for l in first[:2]:
                print("     ", l[:300])
            if rc == 2:
                print(out[-1500:])
    finally:
        sh(f"git worktree remove --force {wt}", cwd="/repo")
        shutil.rmtree(wt, ignore_errors=True)
        shutil.rmtree(out_dir, ignore_errors=True)
    print("demo: clean rc", res.get("demo_clean_rc"), "mutant rc", res.get("demo_mutant_rc"))
    json.dump(res, open(os.path.join(d, "result.json"), "w"), indent=1)


main()
