#!/venv/bin/python
"""Regenerate the table of DESIGN.md section 11 from seeded/*/meta.json (between the SEEDED markers)."""
import json, os, re
ROOT = os.path.dirname(os.path.dirname(os.path.abspath(__file__)))
rows = []
for d in sorted(os.listdir(os.path.join(ROOT, "seeded"))):
    mp = os.path.join(ROOT, "seeded", d, "meta.json")
    if not os.path.exists(mp):
        continue
    m = json.load(open(mp))
    miss = ", ".join(m.get("initially_missed_by", [])) or "-"
    rows.append(f"| {m['id']} | {m['what']} | {', '.join(m.get('detected_by', []))} | {miss} | {m.get('strengthened', '-')} |")
n = len(rows)
nm = sum(1 for r in rows if not r.split("|")[4].strip() == "-")
head = (f"{n} seeded changes were produced by independent sub-agents that saw only the property text and a scratch worktree; each\n"
        f"passes the upstream test files exercising the touched code (`seeded/<id>/tests.txt`), and its demonstration fails with the\n"
        f"change and passes without it (`tools/try_seeded.py`). {nm} of them were missed by the checks as first built; every miss was\n"
        f"closed by widening the enumerated space or sharpening an oracle (last column), never by special-casing the change, and\n"
        f"the widened check was re-run on the unchanged tree. After strengthening all {n} are reported by at least one quick-tier check.\n\n"
        "| id | change | reported by (quick tier) | missed at first by | what was strengthened |\n|---|---|---|---|---|\n")
table = head + "\n".join(rows)
p = os.path.join(ROOT, "DESIGN.md")
s = open(p).read()
if "SEEDED_TABLE_PLACEHOLDER" in s:
    s = s.replace("SEEDED_TABLE_PLACEHOLDER", "<!-- SEEDED-BEGIN -->\n" + table + "\n<!-- SEEDED-END -->")
else:
    s = re.sub(r"<!-- SEEDED-BEGIN -->.*<!-- SEEDED-END -->", lambda m: "<!-- SEEDED-BEGIN -->\n" + table + "\n<!-- SEEDED-END -->", s, flags=re.S)
open(p, "w").write(s)
print(n, "rows;", nm, "initially missed")
