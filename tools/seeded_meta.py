#!/venv/bin/python
"""Write seeded/<id>/meta.json from the annotation table below plus result.json of tools/try_seeded.py."""
import json, os
ROOT = os.path.dirname(os.path.dirname(os.path.abspath(__file__)))
A = {
 "C02-1": dict(property="C02", what="always_fuse/fuse_all override evaluated before the 'predecessor produces a requested array' guard: forced fusion removes a requested intermediate array",
               needs="forced-fusion optimizer setting and cubed.compute(c, d) with c the only input of d", detected_by=["C02"]),
 "C02-2": dict(property="C02", what="multiple-output guard moved into can_fuse_multiple_primitive_ops, which the always_fuse early return skips: forced fusion fuses a multi-output predecessor and planning fails",
               needs="fuse_all / fuse_only / always_fuse and a multi-output op feeding a single fusable consumer", detected_by=["C02"]),
 "C04-1": dict(property="C04", what="the fusion guard 'peak projected memory of predecessors <= allowed_mem' only runs when max_total_num_input_blocks is None (never for the default optimizer)",
               needs="an op with >= 2 large fusable predecessors and allowed_mem in the window [max unfused projected, fused peak)", detected_by=["C04"]),
 "C04-2": dict(property="C04", what="admission compares projected_mem - reserved_mem with allowed_mem (reserved subtracted on one side only)",
               needs="reserved_mem > 0 and projected memory within reserved_mem bytes above allowed_mem", detected_by=["C04"]),
 "C05-1": dict(property="C05", what="store alignment check exempts an axis when the TARGET has a single chunk (tc >= n) instead of when the source has a single block",
               needs="store into an existing array whose chunk spans an axis along which the source has several blocks", detected_by=["C05", "C11"]),
 "C05-2": dict(property="C05", what="regular multi-stage rechunk aligns the first copy with the final write chunks instead of the first intermediate stage (hoisted _fix_copy_chunks)",
               needs="allow_irregular=False, a budget/min_mem forcing >= 2 stages, an axis shrinking from a partial read chunk that is not a multiple of the first stage chunk",
               detected_by=["C14", "C05"], initially_missed_by=["C05", "C14"],
               strengthened="C14: mixed-axis geometry family (one axis shrinks from a partial chunk while the other grows) x min_mem ladder; C05: the same geometries end to end under an allowed_mem ladder with explicit min_mem"),
 "C06-1": dict(property="C06", what="zarr create_array(overwrite=mode != 'w-'): open-or-create mode 'a' truncates an existing array",
               needs="a create-arrays task re-executed after data exists (duplicate/backup task, or resume)", detected_by=["C06", "C09"]),
 "C06-2": dict(property="C06", what="processes executor caches the cloudpickled task kwargs per operation name; later batches/backups pass no name and share the key None across operations",
               needs="ProcessesExecutor, >= 2 operations and batch_size < tasks (or a launched backup)", detected_by=["C07", "C13"], initially_missed_by=["C06", "C07", "C13", "C08"],
               strengthened="VirtualExecutor real_futures mode: C07 and C13 now also drive cubed's own threads_/processes_create_futures_func (cloudpickle + unpickle_and_call) over a held pool, with batching"),
 "C07-1": dict(property="C07", what="hand-written Kahn generations: in-degree counts distinct predecessors but the decrement walks parallel edges, so an op taking the same array twice is released before its other input is produced",
               needs="compute_arrays_in_parallel, an op with a repeated input and another input with a longer producer chain", detected_by=["C07"], initially_missed_by=["C07", "C13"],
               strengthened="C07 DAG menu gained 'repeated-arg' shapes: a three-argument elementwise op f(p, p, q) with q behind a longer, equally chunked chain"),
 "C07-2": dict(property="C07", what="parallel branch of async_map_dag waits for FIRST_COMPLETED instead of ALL_COMPLETED drain tasks of a generation",
               needs="compute_arrays_in_parallel with a generation of >= 2 ops of unequal duration and a consumer in the next generation", detected_by=["C07", "C13"]),
 "C08-1": dict(property="C08", what="batch refill moved to the top of the wait loop: when every in-flight task finishes in one wake-up the map ends without submitting the remaining batches",
               needs="batch_size < n and all in-flight tasks completing in the same wake-up (always with batch_size=1)", detected_by=["C08", "C13"]),
 "C08-2": dict(property="C08", what="backups.pop instead of backups.get for a failed task: the twin's later success hits del backups[...] -> KeyError",
               needs="use_backups, a launched backup, one twin failing while the other is still running, then succeeding", detected_by=["C08"]),
 "C09-1": dict(property="C09", what="already_computed returns inside the loop over outputs: a multi-output op is trusted after checking its first output only",
               needs="multi-output op and a crash between the writes to output 0 and output 1 of the last task", detected_by=["C09"]),
 "C09-2": dict(property="C09", what="write_empty_chunks moved from global zarr config to a per-array runtime config that open_array does not see: all-fill chunks are not written, such arrays never count as complete",
               needs="a stored array with an all-fill-value chunk and a crash after its op finished", detected_by=["C09"], initially_missed_by=["C09"],
               strengthened="C09: new program whose intermediate has only all-fill chunks; new oracle 'an op all of whose tasks had finished before the crash point must not run again' (independent of what storage reports)"),
 "C10-1": dict(property="C10", what="copy-on-write store keeps the producing op's node name; plans merged by name drop one of the two operations",
               needs="a lazily stored array computed in the same call as its source or an array derived from it", detected_by=["C10", "C11"], initially_missed_by=["C10"],
               strengthened="C10 alphabet gained 'store lazily, then compute the returned array together with the whole pool'"),
 "C10-2": dict(property="C10", what="open_zarr_v3_array: create_array(overwrite=mode != 'w-') - open-or-create re-creates (wipes) an existing array",
               needs="a materialised ancestor, an earlier completed compute, and resume=True on a later compute", detected_by=["C10", "C09", "C06"]),
 "C13-1": dict(property="C13", what="region store advertises prod(max(n // c, 1)) tasks: partial edge chunks rounded down",
               needs="a region ending at the array edge in a partial chunk and spanning >= 2 chunks", detected_by=["C13"], initially_missed_by=["C13"],
               strengthened="C13 programs gained 1-d and 2-d region stores whose region ends in a partial edge chunk"),
 "C13-2": dict(property="C13", what="parallel branch of async_map_dag sends the operation-end notification only for the last op of a generation (leaked loop variable)",
               needs="compute_arrays_in_parallel with >= 2 ops in one generation", detected_by=["C13"]),
 "C17-1": dict(property="C17", what="qr/svd layout check looks at the regular chunk size only and ignores a short last row chunk",
               needs="row count not a multiple of the row chunk with a remainder smaller than the column count", detected_by=["C17"]),
 "C17-2": dict(property="C17", what="stack decides whether to unify chunks by comparing block counts instead of chunks",
               needs="same-shape operands with different chunkings but equal block counts, e.g. (4,2) vs (3,3)", detected_by=["C17", "C01"]),
 "C11-1": dict(property="C11", what="copy-on-write store keeps the producing op's node name: merged plans collide and one target is never written",
               needs="the same lazy source stored twice (or stored and used) in one computation", detected_by=["C11"]),
 "C11-2": dict(property="C11", what="store alignment guard with swapped operands (tc % sc): a source whose chunks divide the target's is not rechunked, tasks share target chunks",
               needs="existing target whose chunk is a proper multiple of the source chunk, parallel executor", detected_by=["C11", "C05"]),
}
for k, a in A.items():
    d = os.path.join(ROOT, "seeded", k)
    if not os.path.isdir(d):
        continue
    res = {}
    rp = os.path.join(d, "result.json")
    if os.path.exists(rp):
        res = json.load(open(rp))
    meta = dict(id=k, **a, author="independent sub-agent given only the property text and a scratch worktree",
                confirmed=dict(demo_exit_on_unchanged_tree=res.get("demo_clean_rc"), demo_exit_with_change=res.get("demo_mutant_rc"),
                               tests="the author ran the relevant upstream test files with the change (see notes.md); re-run here: see tests field if present",
                               tests_rerun=res.get("tests")),
                ran="tools/try_seeded.py seeded/%s --checks %s" % (k, ",".join(a.get("detected_by", []))))
    json.dump(meta, open(os.path.join(d, "meta.json"), "w"), indent=1)
print("wrote", len(A))
