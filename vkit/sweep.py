"""Shared driver for the small-scope sweeps: distributes catalogue cases over
the worker pool; each check module supplies eval_case(case, seed, tier) ->
(counter-dict, [(sig, detail)])."""
from __future__ import annotations

import importlib
from collections import Counter

from .common import perm, worker_seed


def _eval_chunk(args):
    modname, tier, cases = args
    mod = importlib.import_module(modname)
    seed = worker_seed()
    cnt = Counter()
    probs = []
    samples = []
    for case in cases:
        c, ps = mod.eval_case(case, seed, tier)
        cnt.update(c)
        for sig, detail in ps:
            probs.append((sig, case, detail))
        if len(samples) < 1 and c.get("nontrivial"):
            samples.append(case)
    return cnt, probs, samples


THOROUGH_SWEEP_BUDGET_S = 1800.0


def sweep(ctx, modname, cases, chunksize=40, budget_s=None):
    cases = perm(list(cases), ctx.seed)
    # interleave so that chunks have similar cost and a time cap cuts evenly
    chunks = [cases[i::max(1, len(cases) // chunksize)] for i in range(max(1, len(cases) // chunksize))]
    chunks = [c for c in chunks if c]
    total = Counter()
    done = 0
    import time
    t0 = time.time()
    # a thorough sweep is bounded in time (VERIF_BUDGET_S, default 1800 s per sweep): the chunks are interleaved slices of
    # the permuted case list, so a cut leaves an evenly spread sub-sample; the cut is reported as cap_hit and the tier is
    # then not called exhaustive.  Quick tiers are never cut.
    budget = budget_s or ctx.budget_s or (THOROUGH_SWEEP_BUDGET_S if ctx.tier == "thorough" else None)
    if len(chunks) <= 1:
        results = [_eval_chunk((modname, ctx.tier, c)) for c in chunks]
    else:
        pool = ctx.pool()
        futs = [pool.submit(_eval_chunk, (modname, ctx.tier, c)) for c in chunks]

        def gen():
            cut = False
            for k, f in enumerate(futs):
                if budget and not cut and time.time() - t0 > budget:
                    cut = True
                    ncancel = sum(1 for g in futs[k:] if g.cancel())
                    ctx.capped = (f"time budget of {budget:.0f} s per sweep reached in {modname.rsplit('.', 1)[-1]}: {len(futs) - ncancel} of {len(futs)} "
                                  f"interleaved chunks ({chunksize} cases each) evaluated")
                if f.cancelled():
                    continue
                yield f.result()
        results = gen()
    for cnt, probs, samples in results:
        total.update(cnt)
        done += 1
        for sig, case, detail in probs:
            ctx.problem(sig, case, detail)
        for s in samples:
            ctx.sample(s, limit=4)
    return total
