"""Virtual-time asyncio loop and the seam into cubed.runtime.asyncio.

VLoop has no selector: time advances only when the explorer says so, ready
callbacks are drained by hand.  `install()` rebinds the module-level names
`time` and `asyncio` inside cubed.runtime.asyncio (virtual clock; `wait` whose
finished-set iteration order is owned by the harness) and checks that the
module still uses those names (seam self-test -> HarnessError, never a
violation).
"""
from __future__ import annotations

import asyncio
import contextlib
import heapq
import inspect
import time as _real_time
from asyncio import events

from .common import HarnessError


class VLoop(asyncio.BaseEventLoop):
    def __init__(self):
        super().__init__()
        self._vt = 0.0

    def time(self):
        return self._vt

    def _process_events(self, ev):
        pass

    def _write_to_self(self):
        pass

    def drain(self, limit=200000):
        n = 0
        while True:
            while self._scheduled and self._scheduled[0]._when <= self._vt:
                h = heapq.heappop(self._scheduled)
                h._scheduled = False
                if not h._cancelled:
                    self._ready.append(h)
            if not self._ready:
                return n
            h = self._ready.popleft()
            if not h._cancelled:
                h._run()
            n += 1
            if n > limit:
                raise HarnessError("livelock: ready queue never drains")

    def next_timer(self):
        while self._scheduled and self._scheduled[0]._cancelled:
            h = heapq.heappop(self._scheduled)
            h._scheduled = False
        return self._scheduled[0]._when if self._scheduled else None

    def timers(self):
        return sorted(h._when for h in self._scheduled if not h._cancelled)

    def advance_to_next_timer(self):
        w = self.next_timer()
        if w is None:
            raise HarnessError("advance_to_next_timer without a timer")
        self._vt = max(self._vt, w)


class VTime:
    """Stand-in for the `time` module inside cubed.runtime.asyncio."""

    def __init__(self, loop):
        self.loop = loop

    def time(self):
        return 1000.0 + self.loop._vt

    def monotonic(self):
        return self.loop._vt


class OrderedSet(set):
    """A set whose iteration order is fixed by the harness."""

    def __init__(self, items=()):
        items = list(items)
        super().__init__(items)
        self._order = items

    def __iter__(self):
        return iter([x for x in self._order if set.__contains__(self, x)])

    def add(self, x):
        if not set.__contains__(self, x):
            self._order.append(x)
        super().add(x)

    def update(self, xs):
        for x in xs:
            self.add(x)

    def remove(self, x):
        super().remove(x)
        self._order.remove(x)

    def discard(self, x):
        if set.__contains__(self, x):
            self.remove(x)

    def copy(self):
        return OrderedSet(list(self))

    def __copy__(self):
        return self.copy()


class AsyncioShim:
    """Proxy for the asyncio module inside cubed.runtime.asyncio.  `wait`
    returns (finished, pending) as ordered sets: finished in completion order
    (or reversed when the controller says so), pending in canonical rank order."""

    def __init__(self, ctl):
        self._ctl = ctl

    def __getattr__(self, n):
        return getattr(asyncio, n)

    async def wait(self, fs, **kw):
        self._ctl.wait_calls += 1
        done, pending = await asyncio.wait(fs, **kw)
        order = sorted(done, key=self._ctl.done_key)
        if self._ctl.reverse_done:
            order.reverse()
        return OrderedSet(order), OrderedSet(sorted(pending, key=self._ctl.pending_key))


def seam_selftest():
    import cubed.runtime.asyncio as cra

    src = inspect.getsource(cra)
    needed = ["asyncio.wait(", "time.monotonic()", "time.time()"]
    missing = [s for s in needed if s not in src]
    if missing or not hasattr(cra, "time") or not hasattr(cra, "asyncio"):
        raise HarnessError(
            f"seam lost: cubed.runtime.asyncio no longer uses {missing or 'module-level time/asyncio'}; "
            "the virtual loop would not own the clock / wait order"
        )
    for fn in ("async_map_unordered", "async_map_dag"):
        if not hasattr(cra, fn):
            raise HarnessError(f"seam lost: cubed.runtime.asyncio.{fn} missing")


@contextlib.contextmanager
def installed(loop, ctl):
    import cubed.runtime.asyncio as cra

    old_time, old_asyncio = cra.time, cra.asyncio
    cra.time = VTime(loop)
    cra.asyncio = AsyncioShim(ctl)
    events._set_running_loop(loop)
    try:
        yield
    finally:
        events._set_running_loop(None)
        cra.time = old_time
        cra.asyncio = old_asyncio
        try:
            loop.close()
        except Exception:
            pass
