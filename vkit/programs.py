"""Program (DAG) generation by closure over a menu of constructors.

A term is a nested list ["op", arg, ...]; inputs are "a", "b" (same shape,
different chunking, in-memory) and "z" (a Zarr input).  Identical sub-terms are
built once, so shared intermediates / diamonds / repeated arguments arise
naturally.  A program is a list of requested terms; its size is the number of
distinct op nodes in their closure.
"""
from __future__ import annotations

import itertools
import json

import numpy as np

BASE_SHAPE = (4, 6)
INPUTS = {
    "a": dict(chunks=(2, 3), idx=0),
    "b": dict(chunks=(3, 2), idx=1),
    "z": dict(chunks=(2, 2), idx=2),
}


def _mb(a, block_id=None):
    return a + 1000 * (block_id[0] + 1)


def _mb_np(x, chunks):
    out = x.astype(np.float64).copy()
    c0 = chunks[0]
    for o in range(0, x.shape[0], c0):
        out[o:o + c0] += 1000 * (o // c0 + 1)
    return out


def _rechunk_to(shape):
    return tuple(2 if n >= 3 else 1 for n in shape)


def _xp():
    import cubed.array_api as xp
    return xp


def _cb():
    import cubed
    return cubed


# name: (arity, numpy fn, cubed fn)
MENU = {
    "neg": (1, lambda x: -x, lambda x: _xp().negative(x)),
    "slice1": (1, lambda x: x[1:], lambda x: x[1:]),
    "step2": (1, lambda x: x[::2], lambda x: x[::2]),
    "sum0": (1, lambda x: x.sum(axis=0), lambda x: _xp().sum(x, axis=0)),
    "sumall": (1, lambda x: x.sum(), lambda x: _xp().sum(x)),
    "mean1": (1, lambda x: x.mean(axis=-1), lambda x: _xp().mean(x, axis=-1)),
    "T": (1, lambda x: x.T, lambda x: x.T),
    "rechunk": (1, lambda x: x, lambda x: x.rechunk(_rechunk_to(x.shape))),
    "cumsum0": (1, lambda x: np.cumsum(x, axis=0), lambda x: _xp().cumulative_sum(x, axis=0)),
    "argmax1": (1, lambda x: np.argmax(x, axis=-1), lambda x: _xp().argmax(x, axis=-1)),
    "bcast": (1, lambda x: np.broadcast_to(x, (2,) + x.shape), lambda x: _xp().broadcast_to(x, (2,) + tuple(x.shape))),
    "mapblk": (1, None, lambda x: _cb().map_blocks(_mb, x, dtype=np.float64)),
    "idxarr": (1, lambda x: x[[x.shape[0] - 1, 0]], lambda x: x[[x.shape[0] - 1, 0]]),
    "unstack0": (1, lambda x: x[0], None),
    "unstack1": (1, lambda x: x[1], None),
    "sub": (2, lambda x, y: x - y, lambda x, y: _xp().subtract(x, y)),
    "concat0": (2, lambda x, y: np.concatenate([x, y], axis=0), lambda x, y: _xp().concat([x, y], axis=0)),
    "stack0": (2, lambda x, y: np.stack([x, y], axis=0), lambda x, y: _xp().stack([x, y], axis=0)),
    "matmulT": (2, lambda x, y: x @ y.T, lambda x, y: _xp().matmul(x, y.T)),
}
# three-argument elementwise op (same array may be passed twice: parallel edges in the plan multigraph);
# used by hand-written DAGs only, not by the closure enumeration
def _fma_cubed(x, y, z):
    from cubed.core.ops import elemwise
    return elemwise(lambda a, b, c: a * b + c, x, y, z, dtype=x.dtype)


MENU["fma3"] = (3, lambda x, y, z: x * y + z, _fma_cubed)
HIDDEN = {"fma3"}
FUSION_MENU = ["neg", "slice1", "sum0", "mean1", "T", "rechunk", "mapblk", "unstack0", "unstack1", "sub", "concat0", "stack0", "idxarr"]


def key(t):
    return json.dumps(t)


def input_data(seed=0):
    from .scope import mkdata
    return {n: mkdata(BASE_SHAPE, "float64", d["idx"], seed) for n, d in INPUTS.items()}


def np_eval(t, env, memo=None, chunks_memo=None):
    """evaluate term with numpy; raises if numpy refuses"""
    if memo is None:
        memo = {}
    if isinstance(t, str):
        return env[t]
    k = key(t)
    if k in memo:
        return memo[k]
    op, *args = t
    vals = [np_eval(a, env, memo) for a in args]
    if op == "mapblk":
        raise RuntimeError("mapblk needs chunks: evaluated in np_eval_with_chunks")
    r = MENU[op][1](*vals)
    if isinstance(r, np.ndarray) and r.ndim > 3:
        raise ValueError("too many dims")
    memo[k] = r
    return r


class Builder:
    """Builds cubed arrays for terms, sharing identical sub-terms; tracks numpy shadow."""

    def __init__(self, spec, world, seed=0, share=True):
        self.spec = spec
        self.world = world
        self.data = input_data(seed)
        self.memo = {}
        self.shadow = {}
        self.share = share
        self._unstack = {}

    def input(self, name):
        import cubed
        import cubed.array_api as xp
        import zarr

        if name in self.memo:
            return self.memo[name]
        a = self.data[name]
        ch = INPUTS[name]["chunks"]
        if name == "z":
            st = self.world.store("srcz")
            za = zarr.create_array(st, shape=a.shape, dtype=a.dtype, chunks=ch)
            za[...] = a
            arr = cubed.from_zarr(st, spec=self.spec)
        else:
            arr = xp.asarray(a, chunks=ch, spec=self.spec)
        self.memo[name] = arr
        self.shadow[name] = a
        return arr

    def build(self, t):
        if isinstance(t, str):
            return self.input(t), self.shadow.get(t, self.data[t])
        k = key(t)
        if k in self.memo:
            return self.memo[k], self.shadow[k]
        op, *args = t
        built = [self.build(a) for a in args]
        xs = [b[0] for b in built]
        ns = [b[1] for b in built]
        if op in ("unstack0", "unstack1"):
            ak = key(args[0])
            if ak not in self._unstack:
                self._unstack[ak] = _xp().unstack(xs[0], axis=0)
            arr = self._unstack[ak][int(op[-1])]
            val = ns[0][int(op[-1])]
        elif op == "mapblk":
            arr = MENU[op][2](*xs)
            val = _mb_np(ns[0], xs[0].chunksize)
        else:
            val = MENU[op][1](*ns)
            arr = MENU[op][2](*xs)
        self.memo[k] = arr
        self.shadow[k] = val
        return arr, val


def _valid(t, data, memo):
    try:
        k = key(t)
        if k in memo:
            return memo[k] is not None
        op, *args = t
        vals = []
        for a in args:
            if isinstance(a, str):
                vals.append(data[a])
            else:
                if not _valid(a, data, memo):
                    memo[k] = None
                    return False
                vals.append(memo[key(a)])
        if op == "mapblk":
            r = vals[0].astype(np.float64)  # shape-preserving; chunks known only when built
            if r.ndim == 0:
                raise ValueError
        else:
            r = MENU[op][1](*vals)
        r = np.asarray(r)
        if r.ndim > 3 or (op in ("unstack0", "unstack1") and (vals[0].ndim == 0 or vals[0].shape[0] < 2)):
            raise ValueError
        memo[k] = r
        return True
    except Exception:
        memo[key(t)] = None
        return False


def level_terms(menu, base, prev_all, must_use):
    """terms formed by one op from `menu` with at least one argument from must_use and the
    others from prev_all (which need not contain must_use)"""
    out = []
    seen = set()
    for op in menu:
        ar = MENU[op][0]
        if ar == 1:
            cands = [(m,) for m in must_use]
        else:
            cands = [(m, o) for m in must_use for o in prev_all] + [(o, m) for m in must_use for o in prev_all] + [(m, m) for m in must_use]
        for args in cands:
            t = [op, *args]
            k = key(t)
            if k not in seen:
                seen.add(k)
                out.append(t)
    return out


def nodes_of(terms):
    seen = set()

    def rec(t):
        if isinstance(t, str):
            return
        k = key(t)
        if k in seen:
            return
        seen.add(k)
        for a in t[1:]:
            rec(a)

    for t in terms:
        rec(t)
    # unstack0/unstack1 of the same arg are one multi-output op
    merged = set()
    for k in seen:
        t = json.loads(k)
        if t[0] in ("unstack0", "unstack1"):
            merged.add(("unstack", key(t[1])))
        else:
            merged.add(k)
    return merged


def subterms(terms):
    out = {}

    def rec(t):
        if isinstance(t, str):
            return
        out[key(t)] = t
        for a in t[1:]:
            rec(a)

    for t in terms:
        rec(t)
    return list(out.values())


def all_terms(tier):
    data = input_data(0)
    memo = {}
    inputs = list(INPUTS)
    menu1 = [m for m in MENU if m not in HIDDEN]
    t1 = [t for t in level_terms(menu1, None, inputs, inputs) if _valid(t, data, memo)]
    t2 = [t for t in level_terms(menu1, None, inputs + t1, t1) if _valid(t, data, memo)]
    return t1, t2, data, memo


def program_cases(tier, max_nodes=None):
    """yield dict(op='program', terms=[...], requested=[...indices into subterm list...])"""
    t1, t2, data, memo = all_terms(tier)
    out = []
    # size-1 programs
    for t in t1:
        out.append([t])
    # size-2: a depth-2 term with exactly 2 nodes, requested {sink} and {sink, inner}; and pairs of t1
    for t in t2:
        n = len(nodes_of([t]))
        if tier == "quick" and n == 2:
            # quick: inner op from the fusion-relevant menu, other operand an input or the same inner term
            inner_ops = [s[0] for s in subterms([t]) if key(s) != key(t)]
            if any(o not in FUSION_MENU for o in inner_ops):
                continue
        if n == 2:
            out.append([t])
            inner = [s for s in subterms([t]) if key(s) != key(t)]
            out.append([t] + inner[:1])
    fm = [t for t in t1 if t[0] in FUSION_MENU]
    for x, y in itertools.combinations(fm, 2):
        if len(nodes_of([x, y])) == 2:
            out.append([x, y])
    # forks: an intermediate that is NOT requested and feeds two requested consumers (it must stay materialised, or be
    # recomputed consistently, whatever the optimizer decided for either consumer alone)
    for inner in fm:
        for u1, u2 in ((["neg", inner], ["sub", inner, "a"]), (["neg", inner], ["slice1", inner]), (["sum0", inner], ["neg", inner]),
                       (["neg", inner], ["sub", inner, inner]), (["T", inner], ["mean1", inner])):
            if _valid(u1, data, memo) and _valid(u2, data, memo) and len(nodes_of([u1, u2])) == 3:
                out.append([u1, u2])
    if tier == "thorough":
        # 3 op nodes over the fusion-relevant menu
        fm2 = [t for t in t2 if t[0] in FUSION_MENU and all(s[0] in FUSION_MENU for s in subterms([t]))]
        t3 = [t for t in level_terms(FUSION_MENU, None, list(INPUTS) + fm, fm2) if _valid(t, data, memo)]
        for t in fm2:
            if len(nodes_of([t])) == 3:
                out.append([t])
        for t in t3:
            if len(nodes_of([t])) == 3:
                out.append([t])
                inner = [s for s in subterms([t]) if key(s) != key(t)]
                out.append([t] + inner)
    seen = set()
    for terms in out:
        k = json.dumps(sorted(key(t) for t in terms))
        if k in seen:
            continue
        seen.add(k)
        yield dict(op="program", terms=terms, nodes=len(nodes_of(terms)))
