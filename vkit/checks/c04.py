"""C04 - over-budget plans are refused before anything runs; fusion stays within budget.

For each program on tiny arrays: EVERY integer allowed_mem in [0, 2*P_max]
(P_max = largest projected memory of its plans) x reserved_mem in {0,7,64} x
optimizer setting is planned, and the admission decision is compared with an
independent evaluation of `projected_mem > allowed_mem` over the plan's ops; at
every admission boundary (p-1, p, p+1 for each distinct projected memory p) the
computation is actually run on a tracing store: refused => ValueError, executor
never entered, no set/delete on any store; admitted => values equal NumPy.
Fusion: unoptimized fits => default-optimized fits; every fused op reports at
least the projected memory of each op it replaced.
"""
from __future__ import annotations

from collections import Counter

import numpy as np

from ..cexec import ControlledExecutor
from ..common import Problem, perm
from ..programs import Builder, program_cases
from ..tstore import World
from ..vexec import VirtualExecutor

PROPERTY = "C04"
LEVEL = "exploration"

SETTINGS = ["unoptimized", "default", "fuse_all", "simple"]
BIG = 10_000_000


def opt_kwargs(setting):
    from cubed.core.optimization import fuse_all_optimize_dag, simple_optimize_dag
    if setting == "unoptimized":
        return dict(optimize_graph=False)
    if setting == "default":
        return dict(optimize_graph=True)
    if setting == "fuse_all":
        return dict(optimize_graph=True, optimize_function=fuse_all_optimize_dag)
    return dict(optimize_graph=True, optimize_function=simple_optimize_dag)


def build(case, allowed, reserved, seed):
    import cubed
    w = World()
    spec = cubed.Spec(intermediate_store=w.store("inter"), allowed_mem=allowed, reserved_mem=reserved)
    b = Builder(spec, w, seed)
    built = [b.build(t) for t in case["terms"]]
    return w, [x for x, _ in built], [v for _, v in built]


def ops_of(plan):
    return {n: d["primitive_op"] for n, d in plan.dag.nodes(data=True) if "primitive_op" in d}


def canon(name, table):
    return table.setdefault(name, f"n{len(table)}")


def owner_of_removed(unopt_dag, kept, m):
    """follow the single consumer chain of a removed op until a kept op is reached"""
    cur = m
    for _ in range(50):
        outs = [s for s in unopt_dag.successors(cur)]
        cons = {c for o in outs for c in unopt_dag.successors(o)}
        if len(cons) != 1:
            return None
        cur = next(iter(cons))
        if cur in kept:
            return cur
    return None


def eval_program(item):
    case, reserved, tier, seed = item
    import cubed

    cnt = Counter()
    probs = []
    seen = set()

    def add(kind, c, text):
        if kind not in seen:
            seen.add(kind)
            probs.append((dict(kind=kind), dict(case=case, reserved=reserved, **c), text))

    # P_max with an ample budget
    try:
        w, arrs, exp = build(case, BIG, reserved, seed)
    except Exception:
        return cnt, probs
    try:
        pmax = 0
        for s in SETTINGS:
            try:
                pl = cubed.plan(*arrs, **opt_kwargs(s))
                pmax = max([pmax] + [op.projected_mem for op in ops_of(pl).values()])
            except Exception:
                pass
    finally:
        w.dispose()
    if pmax == 0:
        return cnt, probs
    boundaries = set()
    run_at = set()
    for A in range(0, 2 * pmax + 1):
        try:
            w, arrs, exp = build(case, A, reserved, seed)
        except (ValueError, TypeError, NotImplementedError) as e:
            cnt["build_refused"] += 1
            continue
        except Exception as e:
            add("incidental-build-error", dict(allowed=A), f"program {case['terms']} allowed_mem={A} reserved={reserved}: build raised {type(e).__name__}: {str(e)[:100]}")
            continue
        try:
            fits = {}
            for s in SETTINGS:
                cnt["plans"] += 1
                try:
                    pl = cubed.plan(*arrs, **opt_kwargs(s))
                except (ValueError, TypeError, NotImplementedError):
                    fits[s] = None
                    continue
                ops = ops_of(pl)
                X = [n for n, op in ops.items() if op.projected_mem > A]
                fits[s] = (not X, pl, ops)
                for op in ops.values():
                    if op.allowed_mem != A:
                        add("budget-differs", dict(allowed=A, setting=s), f"program {case['terms']}: an op is admitted against allowed_mem={op.allowed_mem}, the Spec says {A}")
                    for d in (-1, 0, 1):
                        boundaries.add((op.projected_mem + d, s))
                # admission decision of the plan itself
                refused = False
                try:
                    pl.validate()
                except ValueError:
                    refused = True
                if refused != bool(X):
                    add("admission-decision", dict(allowed=A, setting=s),
                        f"program {case['terms']} allowed_mem={A} reserved={reserved} setting={s}: plan {'refused' if refused else 'admitted'} but ops over budget = {[(n, ops[n].projected_mem) for n in X]}")
                if X:
                    cnt["over_budget_plans"] += 1
                else:
                    cnt["admitted_plans"] += 1
            # fusion monotonicity
            u = fits.get("unoptimized")
            if u and u[0]:
                dflt = fits.get("default")
                if dflt is not None and not dflt[0]:
                    add("fusion-exceeds-budget", dict(allowed=A), f"program {case['terms']} allowed_mem={A} reserved={reserved}: fits unoptimized but the default optimizer produces an op over budget")
            if u:
                uops, udag = u[2], u[1].dag
                for s in ("default", "fuse_all", "simple"):
                    f = fits.get(s)
                    if not f:
                        continue
                    fops = f[2]
                    kept = set(fops)
                    owners = set()
                    for m, mop in uops.items():
                        if m in kept:
                            continue
                        o = owner_of_removed(udag, kept, m)
                        cnt["replaced_ops_attributed"] += 1 if o else 0
                        if o is not None:
                            owners.add(o)
                            # the fused op also replaces the op whose name it keeps
                            if o in uops and fops[o].projected_mem < uops[o].projected_mem:
                                add("fused-projected-mem-too-low", dict(allowed=A, setting=s),
                                    f"program {case['terms']} setting={s}: fused op reports projected_mem {fops[o].projected_mem}, the op it replaced (same name) reported {uops[o].projected_mem}")
                        if o is not None and fops[o].projected_mem < mop.projected_mem:
                            add("fused-projected-mem-too-low", dict(allowed=A, setting=s),
                                f"program {case['terms']} setting={s}: fused op reports projected_mem {fops[o].projected_mem} but replaced an op projected at {mop.projected_mem}")
            # actually run at the admission boundaries
            for s in SETTINGS:
                if (A, s) in boundaries and (A, s) not in run_at and fits.get(s) is not None:
                    run_at.add((A, s))
                    should_refuse = not fits[s][0]
                    for exname in (("controlled",) if tier == "quick" else ("controlled", "virtual")):
                        ex = ControlledExecutor(world=w) if exname == "controlled" else VirtualExecutor(w, overlay=False)
                        mark = w.mark()
                        err = None
                        try:
                            got = cubed.compute(*arrs, executor=ex, **opt_kwargs(s))
                        except Exception as e:
                            err = e
                        cnt["runs"] += 1
                        muts = [ev for ev in w.events(mark) if ev.op in ("set", "delete")]
                        c = dict(allowed=A, setting=s, executor=exname)
                        if should_refuse:
                            cnt["runs_refused"] += 1
                            if err is None:
                                add("over-budget-plan-ran", c, f"program {case['terms']} allowed_mem={A} reserved={reserved} setting={s}: an op is over budget but compute ran")
                            else:
                                if not isinstance(err, ValueError):
                                    add("refusal-wrong-type", c, f"program {case['terms']} allowed_mem={A}: over-budget plan raised {type(err).__name__}: {str(err)[:100]}")
                                if ex.entered:
                                    add("refused-after-start", c, f"program {case['terms']} allowed_mem={A} setting={s}: refused, but the executor had been entered")
                                if muts:
                                    add("wrote-before-refusal", c, f"program {case['terms']} allowed_mem={A} setting={s}: refused, but storage was touched first: {muts[0]}")
                        else:
                            if err is not None:
                                if "exceeds allowed_mem" in str(err):
                                    add("within-budget-plan-refused", c, f"program {case['terms']} allowed_mem={A} reserved={reserved} setting={s}: every op fits but compute refused: {str(err)[:120]}")
                                # other errors are C17's
                            else:
                                cnt["runs_admitted"] += 1
                                for g, e in zip(got, exp):
                                    if np.shape(g) != np.shape(e) or not np.allclose(g, e, equal_nan=True):
                                        add("wrong-value", c, f"program {case['terms']} allowed_mem={A} setting={s}: admitted plan computed wrong values")
                                        break
                        # the store must be clean for the next run of the same arrays
                        for st in w.stores.values():
                            if st.label == "inter":
                                st._store_dict.clear()
        finally:
            w.dispose()
    cnt["programs"] += 1
    cnt["allowed_values"] += 2 * pmax + 1
    return cnt, probs


def pick_programs(tier):
    pcs = list(program_cases("quick"))
    one = [p for p in pcs if p["nodes"] == 1 and "'b'" not in str(p["terms"]) and "'z'" not in str(p["terms"])]
    two = [p for p in pcs if p["nodes"] == 2 and "'z'" not in str(p["terms"])]
    if tier == "quick":
        return one + two[::160]
    return [p for p in pcs if p["nodes"] == 1] + two[::25]


def replay_case(case):
    _, probs = eval_program((case["case"], case["reserved"], "thorough", 0))
    return [Problem(sig, c, d) for sig, c, d in probs]


def run(ctx):
    tier = ctx.tier
    progs = pick_programs(tier)
    items = [(p, r, tier, ctx.seed) for p in progs for r in ((0, 64) if tier == "quick" else (0, 7, 64))]
    tot = Counter()
    for cnt, probs in ctx.pmap(eval_program, perm(items, ctx.seed)):
        tot.update(cnt)
        for sig, case, text in probs:
            ctx.problem(sig, case, text)
    ctx.set("evaluations", tot["plans"] + tot["runs"])
    ctx.set("distinct_nontrivial", tot["runs"])
    ctx.set("programs_x_reserved", tot["programs"])
    ctx.set("allowed_mem_values_swept", tot["allowed_values"])
    ctx.set("plans_checked", tot["plans"])
    ctx.set("over_budget_plans", tot["over_budget_plans"])
    ctx.set("admitted_plans", tot["admitted_plans"])
    ctx.set("builds_refused_explicitly", tot["build_refused"])
    ctx.set("boundary_runs", tot["runs"])
    ctx.set("boundary_runs_refused", tot["runs_refused"])
    ctx.set("boundary_runs_admitted", tot["runs_admitted"])
    ctx.set("replaced_ops_attributed", tot["replaced_ops_attributed"])
    ctx.set("rule", "every integer allowed_mem in [0, 2*P_max] x reserved_mem x {unoptimized, default, fuse_all, legacy} is planned; distinct_nontrivial = "
            "computations actually run at admission boundaries (p-1, p, p+1 for every op's projected memory p) with the store trace checked")
    ctx.sample(dict(program=progs[0]["terms"], reserved_mem=0, allowed_mem="0..2*P_max", settings=SETTINGS))
    ctx.assumptions += ["projected memory of an op does not depend on allowed_mem except through the planner (rechunk, reductions), which is why every integer is planned"]
