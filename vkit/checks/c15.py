"""C15 - blockwise block addressing follows the index expression, before and after fusion.

(i)  every index expression (<= 3 arguments over <= 4 symbols, block counts
     {1,2,3} with 1 = broadcast, contraction, new axes) is passed to the real
     make_blockwise_back_key_function(_flattened) and every output block's keys
     are compared with an independent reference of the index algebra.
(ii) every fusion tree of depth <= 2 (quick) / 3 (thorough) over seven
     key-function shapes is built with the real general_blockwise primitive,
     fused with the real fuse / fuse_multiple (every subset of fusable
     predecessors), and evaluated with the real get_results_in_different_scope
     over symbolic arrays; the provenance term of every output block must equal
     the one obtained by running the unfused ops one after another.
"""
from __future__ import annotations

import itertools
from collections import Counter

import numpy as np

from ..common import HarnessError, Problem, perm

PROPERTY = "C15"
LEVEL = "exploration"


# ======================================================================= part (i)
def _index_cases(syms, maxlen, maxout, nargs_list, arglen3):
    inds = [()]
    for L in range(1, maxlen + 1):
        inds += list(itertools.permutations(syms, L))
    outs = [o for o in inds if len(o) <= maxout]
    for out in outs:
        for nargs in nargs_list:
            pool = [i for i in inds if 1 <= len(i) <= (arglen3 if nargs == 3 else maxlen)]
            for args in itertools.product(pool, repeat=nargs):
                used = set().union(*map(set, args))
                if nargs == 2 and maxlen >= 3 and len(args[0]) + len(args[1]) > 5:
                    continue
                new = [s for s in out if s not in used]
                if len(new) > 1:
                    continue
                yield out, args, tuple(new)


def index_cases(tier):
    if tier == "quick":
        seen = set()
        for c in _index_cases("ijk", 2, 2, (1, 2), 1):
            seen.add(c)
            yield c
        for c in _index_cases("ijk", 2, 2, (3,), 1):
            yield c
        return
    seen = set()
    gens = [_index_cases("ijk", 3, 3, (1, 2), 1), _index_cases("ijk", 2, 2, (3,), 2), _index_cases("ijkl", 2, 3, (1, 2), 1), _index_cases("ijkl", 1, 2, (3,), 1)]
    for g in gens:
        for c in g:
            if c not in seen:
                seen.add(c)
                yield c


def ref_keys(out, args, new, dims, nb, out_coords):
    """reference: out coords -> per-argument block coords.  dims: symbol -> blocks; nb[k][ax] blocks of arg k"""
    sym = dict(zip(out, out_coords))
    res = []
    for k, ind in enumerate(args):
        coords = []
        nest = 0
        for ax, s in enumerate(ind):
            if s in sym:
                coords.append(0 if nb[k][ax] == 1 else sym[s])
            else:
                # contracted symbol: cubed refuses more than one block there
                if nb[k][ax] > 1:
                    return "ValueError"
                coords.append(0)
                nest += 1
        res.append((f"x{k}", tuple(coords), nest))
    return res


def eval_index_group(item):
    cases, tier = item
    from cubed.primitive.blockwise import ChunkKey, make_blockwise_back_key_function, make_blockwise_back_key_function_flattened

    cnt = Counter()
    probs = []
    seen = set()
    for out, args, new in cases:
        used = sorted(set(out) | set().union(*map(set, args)))
        for blocks in itertools.product((1, 2, 3), repeat=len(used)):
            dims = dict(zip(used, blocks))
            # broadcast variants: each argument axis has either dims[s] blocks or 1
            axes = [(k, ax) for k, ind in enumerate(args) for ax, s in enumerate(ind) if dims[s] > 1]
            bvars = itertools.product((False, True), repeat=len(axes)) if len(axes) <= 3 else [tuple([False] * len(axes)), tuple([True] + [False] * (len(axes) - 1))]
            for bv in bvars:
                b1 = {a for a, f in zip(axes, bv) if f}
                # at least one argument must carry the full block count of every non-new output symbol
                nb = [tuple(1 if (k, ax) in b1 else dims[s] for ax, s in enumerate(ind)) for k, ind in enumerate(args)]
                ok = True
                for s in out:
                    if s in new:
                        continue
                    if not any(nb[k][ax] == dims[s] for k, ind in enumerate(args) for ax, t in enumerate(ind) if t == s):
                        ok = False
                if not ok:
                    continue
                numblocks = {f"x{k}": nb[k] for k in range(len(args))}
                pairs = []
                for k, ind in enumerate(args):
                    pairs += [f"x{k}", ind]
                new_axes = {s: dims[s] for s in new}
                case = dict(part="index", out=out, args=args, new=new, dims=dims, nb=nb)
                cnt["expressions"] += 1
                try:
                    kf = make_blockwise_back_key_function(None, "out", out, *pairs, numblocks=numblocks, new_axes=new_axes)
                    kff = make_blockwise_back_key_function_flattened(None, "out", out, *pairs, numblocks=numblocks, new_axes=new_axes)
                    built = True
                except ValueError:
                    built = False
                except Exception as e:
                    k0 = ("index-crash", type(e).__name__)
                    if k0 not in seen:
                        seen.add(k0)
                        probs.append((dict(kind="index-crash", exc=type(e).__name__), case, f"key function construction raised {type(e).__name__}: {str(e)[:100]} for {case}"))
                    continue
                for oc in itertools.product(*[range(dims[s]) for s in out]):
                    exp = ref_keys(out, args, new, dims, nb, oc)
                    cnt["blocks"] += 1
                    if exp == "ValueError":
                        if built:
                            if "accepted-contraction" not in seen:
                                seen.add("accepted-contraction")
                                probs.append((dict(kind="accepted-multiblock-contraction"), case, f"contraction over several blocks accepted: {case}"))
                        break
                    if not built:
                        if "refused" not in seen:
                            seen.add("refused")
                            probs.append((dict(kind="refused-valid-expression"), case, f"valid index expression refused with ValueError: {case}"))
                        break
                    if any(n for _, _, n in exp) or len(out) < len(used):
                        cnt["nontrivial"] += 1
                    got = kf(ChunkKey("out", oc))[1:]
                    # nested form: contracted symbols add list nesting (in symbol order), leaf = (name, *coords)
                    for (name, coords, nest), g in zip(exp, got):
                        leaf = g
                        depth = 0
                        while isinstance(leaf, list):
                            if len(leaf) != 1:
                                leaf = None
                                break
                            leaf = leaf[0]
                            depth += 1
                        if leaf != (name,) + coords or depth != nest:
                            if "nested-mismatch" not in seen:
                                seen.add("nested-mismatch")
                                probs.append((dict(kind="wrong-block-address"), dict(case, out_coords=oc),
                                              f"out block {oc}: argument {name} got {g}, reference {(name,) + coords} nested {nest} deep: {case}"))
                    gf = kff(ChunkKey("out", oc))
                    flat = [(a.name, tuple(a.coords)) for a in gf.args]
                    if flat != [(n, c) for n, c, _ in exp]:
                        if "flat-mismatch" not in seen:
                            seen.add("flat-mismatch")
                            probs.append((dict(kind="wrong-block-address"), dict(case, out_coords=oc),
                                          f"out block {oc}: flattened keys {flat}, reference {[(n, c) for n, c, _ in exp]}: {case}"))
    return cnt, probs


# ======================================================================= part (i-b)
def set_partitions(n):
    """restricted growth strings: every way of letting n argument positions share arrays"""
    def rec(i, cur, mx):
        if i == n:
            yield tuple(cur)
            return
        for v in range(mx + 2):
            yield from rec(i + 1, cur + [v], max(mx, v))
    yield from rec(0, [], -1)


def eval_repeat_group(item):
    """The public core blockwise over real (lazy) arrays where ONE array may sit in several argument positions with
    different index patterns (outer(a, a), f(m_ij, m_ji)): the key function of the operation that cubed builds is
    read from the plan and compared with the reference for every output block."""
    cases, tier = item
    import cubed
    import cubed.array_api as xp
    from cubed.core.ops import blockwise as core_blockwise
    from cubed.primitive.blockwise import ChunkKey

    cnt = Counter()
    probs = []
    seen = set()
    spec = cubed.Spec(allowed_mem=2_000_000, reserved_mem=0)
    for out, args, new in cases:
        if new or len(args) < 2:
            continue
        used = sorted(set(out) | set().union(*map(set, args)))
        contracted = [s for s in used if s not in out]
        for nblk in ((2, 3) if tier == "quick" else (1, 2, 3)):
            dims = {s: (1 if s in contracted else nblk) for s in used}
            size = {s: 2 * dims[s] if s not in contracted else 2 for s in used}
            for part in set_partitions(len(args)):
                if len(set(part)) == len(args):
                    pass  # all distinct: the baseline
                # positions sharing an array need the same shape and block grid
                ok = True
                for g in set(part):
                    pos = [k for k, v in enumerate(part) if v == g]
                    shp = {tuple((size[t], dims[t]) for t in args[k]) for k in pos}
                    if len(shp) != 1:
                        ok = False
                if not ok:
                    continue
                arrs = {}
                for g in set(part):
                    k0 = part.index(g)
                    shape = tuple(size[t] for t in args[k0])
                    arrs[g] = xp.ones(shape, dtype="float64", chunks=tuple(2 for _ in shape), spec=spec)
                pairs = []
                for k, ind in enumerate(args):
                    pairs += [arrs[part[k]], ind]
                case = dict(part="repeat", out=out, args=args, new=new, sharing=part, nblk=nblk)
                cnt["repeat_expressions"] += 1
                try:
                    y = core_blockwise(lambda *xs: xs[0], out, *pairs, dtype="float64", align_arrays=False)
                    dag = y._plan.dag if hasattr(y, "_plan") else cubed.plan(y, optimize_graph=False).dag
                    ops = [d["primitive_op"] for n, d in dag.nodes(data=True) if "primitive_op" in d and y.name in dag.successors(n)]
                    kf = ops[0].pipeline.config.back_key_function
                except ValueError:
                    cnt["repeat_refused"] += 1
                    continue
                except Exception as e:
                    if "crash" not in seen:
                        seen.add("crash")
                        probs.append((dict(kind="index-crash", exc=type(e).__name__), case, f"core blockwise raised {type(e).__name__}: {str(e)[:100]} for {case}"))
                    continue
                nb = [tuple(dims[t] for t in ind) for ind in args]
                for oc in itertools.product(*[range(dims[t]) for t in out]):
                    exp = ref_keys(out, args, new, dims, nb, oc)
                    if exp == "ValueError":
                        break
                    cnt["repeat_blocks"] += 1
                    if len(set(part)) < len(args):
                        cnt["nontrivial"] += 1
                    want = [(arrs[part[k]].name, c) for k, (_, c, _) in enumerate(exp)]
                    try:
                        gf = kf(ChunkKey(y.name, oc))
                        flat = []
                        for a in gf.args:
                            while isinstance(a, (list, tuple)) and not hasattr(a, "coords"):
                                a = a[0]
                            flat.append((a.name, tuple(a.coords)))
                    except Exception as e:
                        flat = f"{type(e).__name__}: {str(e)[:80]}"
                    if flat != want and "repeat-mismatch" not in seen:
                        seen.add("repeat-mismatch")
                        rel = {n: f"array{g}" for g, n in ((g, arrs[g].name) for g in arrs)}
                        show = lambda L: [(rel.get(n, n), c) for n, c in L] if isinstance(L, list) else L
                        probs.append((dict(kind="wrong-block-address", repeated_array=len(set(part)) < len(args)), dict(case, out_coords=oc),
                                      f"out block {oc}: blockwise over argument arrays {['array%d' % v for v in part]} addresses {show(flat)}, reference {show(want)}: {case}"))
    return cnt, probs


# ======================================================================= part (ii)
class Term:
    __slots__ = ("t",)

    def __init__(self, *t):
        self.t = t

    def __eq__(self, o):
        return isinstance(o, Term) and self.t == o.t

    def __hash__(self):
        return hash(self.t)

    def __repr__(self):
        return "T" + repr(self.t)

    def __iter__(self):
        raise TypeError("Term is not iterable")


def box(t):
    a = np.empty((), dtype=object)
    a[()] = t
    return a


def val(x):
    """turn whatever a block function received into a term, recording list / iterator structure"""
    import collections.abc as cabc
    if isinstance(x, np.ndarray):
        return x.item() if x.ndim == 0 else Term("arr", *map(val, x.tolist()))
    if isinstance(x, Term):
        return x
    if isinstance(x, list):
        return Term("list", *map(val, x))
    if isinstance(x, tuple):
        return Term("tuple", *map(val, x))
    if isinstance(x, cabc.Iterator):
        return Term("iter", *map(val, x))
    return Term("lit", repr(x))


class Sym:
    """symbolic array: one block per chunk (every chunk has size 1), a block is a provenance term"""

    def __init__(self, name, numblocks):
        self.name = name
        self.numblocks = tuple(numblocks)
        self.shape = tuple(numblocks)
        self.chunks = tuple((1,) * n for n in numblocks)
        self.dtype = np.dtype("f8")
        self.blocks = {}
        self.ndim = len(numblocks)

    def __getitem__(self, sel):
        if not isinstance(sel, tuple):
            sel = (sel,)
        coords = tuple(int(s.start or 0) for s in sel)
        if coords in self.blocks:
            return box(self.blocks[coords])
        return box(Term("blk", self.name, coords))


KINDS = ("one2one", "two", "list", "stream", "alternate", "concat", "multi", "mixlist", "mixstream")


class Node:
    """a symbolic op: kind, argument nodes/arrays; builds a real PrimitiveOperation"""

    _n = 0

    def __init__(self, kind, args):
        Node._n += 1
        self.kind = kind
        self.args = args  # list of (Node, output index) or Sym
        self.id = Node._n
        self.outs = None
        self.op = None

    def arg_arrays(self):
        return [a if isinstance(a, Sym) else a[0].outs[a[1]] for a in self.args]

    def out_numblocks(self):
        nbs = [a.numblocks for a in self.arg_arrays()]
        k = self.kind
        if k in ("one2one", "multi"):
            return nbs[0]
        if k in ("two", "mixlist", "mixstream"):
            return nbs[0] if nbs[0] == nbs[1] else None
        if k in ("list", "stream"):
            return nbs[0][:-1] if len(nbs[0]) >= 1 else None
        if k == "alternate":
            return (len(nbs),) + nbs[0] if all(n == nbs[0] for n in nbs) else None
        if k == "concat":
            if len(nbs[0]) >= 1 and len(nbs[0]) == len(nbs[1]) and nbs[0][1:] == nbs[1][1:]:
                return (nbs[0][0] + nbs[1][0],) + nbs[0][1:]
            return None

    def build(self):
        from cubed.primitive.blockwise import ChunkKey, FunctionArgs, general_blockwise

        arrays = self.arg_arrays()
        nb = self.out_numblocks()
        assert nb is not None
        label = f"{self.kind}{self.id}"
        nout = 2 if self.kind == "multi" else 1
        self.outs = [Sym(f"n{self.id}o{j}", nb) for j in range(nout)]
        names = [a.name for a in arrays]
        k = self.kind
        if k == "one2one":
            def kf(out_key):
                return FunctionArgs(ChunkKey(names[0], out_key.coords), output_name=out_key.name)
            def fn(x):
                return box(Term(label, val(x)))
            nib = (1,)
        elif k == "two":
            def kf(out_key):
                return FunctionArgs(ChunkKey(names[0], out_key.coords), ChunkKey(names[1], out_key.coords), output_name=out_key.name)
            def fn(x, y):
                return box(Term(label, val(x), val(y)))
            nib = (1, 1)
        elif k in ("list", "stream"):
            m = arrays[0].numblocks[-1]
            if k == "list":
                def kf(out_key):
                    return FunctionArgs([ChunkKey(names[0], out_key.coords + (j,)) for j in range(m)], output_name=out_key.name)
            else:
                def kf(out_key):
                    return FunctionArgs(iter([ChunkKey(names[0], out_key.coords + (j,)) for j in range(m)]), output_name=out_key.name)
            def fn(xs):
                return box(Term(label, val(xs)))
            nib = (m,)
        elif k in ("mixlist", "mixstream"):
            # one argument: a list / stream of blocks taken from two DIFFERENT arrays
            if k == "mixlist":
                def kf(out_key):
                    return FunctionArgs([ChunkKey(names[0], out_key.coords), ChunkKey(names[1], out_key.coords)], output_name=out_key.name)
            else:
                def kf(out_key):
                    return FunctionArgs(iter([ChunkKey(names[0], out_key.coords), ChunkKey(names[1], out_key.coords)]), output_name=out_key.name)
            def fn(xs):
                return box(Term(label, val(xs)))
            nib = (1, 1)
        elif k == "alternate":
            def kf(out_key):
                c = out_key.coords
                return FunctionArgs(ChunkKey(names[c[0]], c[1:]), output_name=out_key.name)
            def fn(x):
                return box(Term(label, val(x)))
            nib = (1,) * len(arrays)
        elif k == "concat":
            n0 = arrays[0].numblocks[0]
            def kf(out_key):
                c = out_key.coords
                if c[0] < n0:
                    return FunctionArgs(ChunkKey(names[0], c), output_name=out_key.name)
                return FunctionArgs(ChunkKey(names[1], (c[0] - n0,) + c[1:]), output_name=out_key.name)
            def fn(x):
                return box(Term(label, val(x)))
            nib = (1, 1)
        elif k == "multi":
            def kf(out_key):
                return FunctionArgs(ChunkKey(names[0], out_key.coords), output_name=out_key.name)
            def fn(x):
                v = val(x)
                return box(Term(label + "a", v)), box(Term(label + "b", v))
            nib = (1,)
        self.op = general_blockwise(
            fn, kf, *arrays,
            allowed_mem=10**9, reserved_mem=0,
            target_stores=["mem://sym"] * nout, target_names=[o.name for o in self.outs],
            shapes=[o.shape for o in self.outs], dtypes=[o.dtype for o in self.outs], chunkss=[o.chunks for o in self.outs],
            in_names=names, num_input_blocks=nib,
        )
        return self


def evaluate(op, outs):
    """run every task of a primitive op through the real get_results_in_different_scope; returns {out name: {coords: term}}"""
    import inspect
    from cubed.primitive.blockwise import get_results_in_different_scope

    res = {o.name: {} for o in outs}
    for coords in op.pipeline.mappable:
        r = get_results_in_different_scope(coords, config=op.pipeline.config)
        if inspect.isgenerator(r):
            r = tuple(r)
        if not isinstance(r, tuple):
            r = (r,)
        for o, x in zip(outs, r):
            res[o.name][tuple(coords)] = val(x)
    return res


def describe(node):
    def d(a):
        return a.name if isinstance(a, Sym) else f"{describe(a[0])}[{a[1]}]"
    return f"{node.kind}({', '.join(d(a) for a in node.args)})"


def arity(kind):
    return {"one2one": 1, "two": 2, "list": 1, "stream": 1, "alternate": 2, "concat": 2, "multi": 1, "mixlist": 2, "mixstream": 2}[kind]


def tree_specs(depth):
    """specs of trees: ('kind', [child spec or base name])"""
    base = ["a", "b"]
    level = [[], []]
    # depth 1
    d1 = []
    for k in KINDS:
        for args in itertools.product(base, repeat=arity(k)):
            d1.append((k, list(args)))
    out = list(d1)
    prev = d1
    allprev = list(d1)
    for d in range(2, depth + 1):
        cur = []
        prev_ids = {id(x) for x in prev}
        for k in KINDS:
            n = arity(k)
            pools = [allprev + base] * n
            for args in itertools.product(*pools):
                if not any(isinstance(a, tuple) and id(a) in prev_ids for a in args):
                    continue
                if d >= 3:
                    # depth 3: other arguments are base arrays or the same subtree (keeps the space finite and collision-rich)
                    subs = [a for a in args if isinstance(a, tuple)]
                    if any(s != subs[0] for s in subs):
                        continue
                cur.append((k, list(args)))
        out += cur
        prev = cur
        allprev = allprev + cur
    return out


def instantiate(spec, base, memo):
    """build Node graph from spec sharing identical subtrees; returns Node or None if shapes do not fit"""
    key = repr(spec)
    if key in memo:
        return memo[key]
    kind, args = spec
    built = []
    for a in args:
        if isinstance(a, str):
            built.append(base[a])
        else:
            n = instantiate(a, base, memo)
            if n is None:
                memo[key] = None
                return None
            built.append((n, 0))
    node = Node(kind, built)
    if node.out_numblocks() is None:
        memo[key] = None
        return None
    node.build()
    memo[key] = node
    return node


def all_nodes(node, acc=None):
    acc = acc if acc is not None else []
    for a in node.args:
        if not isinstance(a, Sym):
            all_nodes(a[0], acc)
    if node not in acc:
        acc.append(node)
    return acc


def eval_tree_group(item):
    specs, tier, variants = item
    from cubed.primitive.blockwise import fuse, fuse_multiple

    cnt = Counter()
    probs = []
    seen = set()
    for spec in specs:
        for bnb in variants:
            base = {"a": Sym("a", bnb[0]), "b": Sym("b", bnb[1])}
            root = instantiate(spec, base, {})
            if root is None:
                cnt["shape-incompatible"] += 1
                continue
            nodes = all_nodes(root)
            # unfused evaluation, in dependency order
            for n in nodes:
                r = evaluate(n.op, n.outs)
                for o in n.outs:
                    o.blocks = r[o.name]
            want = {o.name: dict(o.blocks) for o in root.outs}
            # fused evaluation: every subset of fusable direct predecessors, predecessors themselves fused or not
            inner = [n for n in nodes if n is not root]
            cnt["trees"] += 1

            def fused_op(node, choice):
                """choice: set of node ids whose output is fused into their consumer"""
                preds = []
                anyf = False
                for a in node.args:
                    if isinstance(a, Sym):
                        preds.append(None)
                    else:
                        pn = a[0]
                        if pn.id in choice and pn.kind != "multi":
                            preds.append(fused_op(pn, choice))
                            anyf = True
                        else:
                            preds.append(None)
                if not anyf:
                    return node.op
                return fuse_multiple(node.op, *preds)

            fusable = [n.id for n in inner if n.kind != "multi"]
            subsets = [set(c) for r in range(1, len(fusable) + 1) for c in itertools.combinations(fusable, r)]
            for choice in subsets:
                # unfused predecessors must hold their blocks; fused ones must NOT be read: clear them to make a stale read visible
                for n in inner:
                    for o in n.outs:
                        o.blocks = {} if n.id in choice else o.blocks
                case = dict(part="fusion", spec=spec, base=bnb, fused=sorted(str(next(n.kind for n in inner if n.id == i)) for i in choice))
                try:
                    fop = fused_op(root, choice)
                    got = evaluate(fop, root.outs)
                except Exception as e:
                    k0 = ("fusion-crash", type(e).__name__)
                    if k0 not in seen:
                        seen.add(k0)
                        probs.append((dict(kind="fusion-crash", exc=type(e).__name__, root=root.kind), case,
                                      f"fused evaluation raised {type(e).__name__}: {str(e)[:120]} for {describe(root)} fusing {case['fused']}"))
                    got = None
                cnt["fused-evaluations"] += 1
                if got is not None and got != want:
                    k0 = ("term-mismatch", root.kind, tuple(case["fused"]))
                    if k0 not in seen:
                        seen.add(k0)
                        nm = next(iter(want))
                        bad = next((c for c in want[nm] if got[nm].get(c) != want[nm][c]), None)
                        probs.append((dict(kind="fused-term-differs", root=root.kind), case,
                                      f"{describe(root)} fusing {case['fused']}: block {bad} fused={got[nm].get(bad)} unfused={want[nm].get(bad)}"))
                # restore
                for n in inner:
                    if n.id in choice:
                        r = evaluate(n.op, n.outs) if False else None
                for n in nodes[:-1]:
                    if not n.outs[0].blocks:
                        rr = evaluate(n.op, n.outs)
                        for o in n.outs:
                            o.blocks = rr[o.name]
            # legacy two-op fuse for linear single-argument chains with equal task counts
            if len(root.args) == 1 and not isinstance(root.args[0], Sym):
                pn = root.args[0][0]
                if pn.kind != "multi" and pn.op.num_tasks == root.op.num_tasks and root.kind in ("one2one", "multi"):
                    try:
                        got = evaluate(fuse(pn.op, root.op), root.outs)
                        cnt["legacy-fuse-evaluations"] += 1
                        if got != want and "legacy" not in seen:
                            seen.add("legacy")
                            probs.append((dict(kind="fused-term-differs", root=root.kind, legacy=True), dict(part="fusion", spec=spec, base=bnb, legacy=True),
                                          f"legacy fuse of {describe(root)} differs from unfused evaluation"))
                    except Exception as e:
                        if "legacy-crash" not in seen:
                            seen.add("legacy-crash")
                            probs.append((dict(kind="fusion-crash", exc=type(e).__name__, legacy=True), dict(part="fusion", spec=spec, base=bnb, legacy=True),
                                          f"legacy fuse raised {type(e).__name__}: {e}"))
    return cnt, probs


def replay_case(case):
    def tup(x):
        return tuple(tup(v) for v in x) if isinstance(x, list) else x
    if case["part"] == "repeat":
        _, probs = eval_repeat_group(([(tup(case["out"]), tup(case["args"]), tup(case["new"]))], "thorough"))
    elif case["part"] == "index":
        _, probs = eval_index_group(([(tup(case["out"]), tup(case["args"]), tup(case["new"]))], "thorough"))
    else:
        def spec_of(s):
            return (s[0], [spec_of(a) if isinstance(a, list) else a for a in s[1]])
        _, probs = eval_tree_group(([spec_of(case["spec"])], "thorough", [tup(case["base"])]))
    return [Problem(sig, c, d) for sig, c, d in probs]


def run(ctx):
    tier = ctx.tier
    ic = list(index_cases(tier))
    groups = [(ic[i::64], tier) for i in range(64)]
    tot = Counter()
    for cnt, probs in ctx.pmap(eval_index_group, [g for g in groups if g[0]]):
        tot.update(cnt)
        for sig, case, text in probs:
            ctx.problem(sig, case, text)
    rc = [c for c in ic if not c[2] and len(c[1]) >= 2]
    for cnt, probs in ctx.pmap(eval_repeat_group, [(rc[i::32], tier) for i in range(32) if rc[i::32]]):
        tot.update(cnt)
        for sig, case, text in probs:
            ctx.problem(sig, case, text)
    ctx.set("repeated_array_expressions", tot["repeat_expressions"])
    ctx.set("repeated_array_blocks_checked", tot["repeat_blocks"])
    ctx.set("repeated_array_refused", tot["repeat_refused"])
    specs = tree_specs(2 if tier == "quick" else 3)
    variants = [((2, 3), (2, 3)), ((2,), (3,)), ((1, 2), (1, 2))] if tier == "quick" else [((2, 3), (2, 3)), ((2,), (3,)), ((1, 2), (1, 2)), ((2, 2, 2), (2, 2, 2)), ((3, 1), (2, 1))]
    ng = 64
    for cnt, probs in ctx.pmap(eval_tree_group, [(specs[i::ng], tier, variants) for i in range(ng) if specs[i::ng]]):
        tot.update(cnt)
        for sig, case, text in probs:
            ctx.problem(sig, case, text)
    ctx.set("evaluations", tot["blocks"] + tot["repeat_blocks"] + tot["fused-evaluations"] + tot["legacy-fuse-evaluations"])
    ctx.set("distinct_nontrivial", tot["nontrivial"] + tot["fused-evaluations"])
    ctx.set("index_expression_instances", tot["expressions"])
    ctx.set("index_output_blocks_checked", tot["blocks"])
    ctx.set("fusion_tree_specs", len(specs))
    ctx.set("fusion_trees_built", tot["trees"])
    ctx.set("fusion_tree_shape_incompatible", tot["shape-incompatible"])
    ctx.set("fused_evaluations", tot["fused-evaluations"])
    ctx.set("legacy_fuse_evaluations", tot["legacy-fuse-evaluations"])
    ctx.set("rule", "(i) index expressions over <=3/4 symbols, <=3 arguments, block counts {1,2,3}, broadcast variants, every output block; non-trivial = "
            "contraction/broadcast/new-axis involved. (i-b) the same expressions through the public core blockwise over lazy arrays, every way of letting argument positions share one array. (ii) every tree over 7 key-function shapes to depth 2/3 x block-count variants x every subset of fusable predecessors")
    ctx.sample(dict(index_expression=dict(out="ij", args=["ik", "kj"], blocks=dict(i=2, j=3, k=1))))
    ctx.sample(dict(fusion_tree="list(one2one(a))", fused=["one2one"], term="T('list3', T('list', T('one2one1', T('blk','a',(0,0))), ...))"))
    ctx.assumptions += ["symbolic blocks: every chunk has size 1 and carries a provenance term; the real key functions, fuse/fuse_multiple and get_results_in_different_scope are executed"]
