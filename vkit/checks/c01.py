"""C01 - computed values equal NumPy's for every expression, chunking, executor.

Exhaustive small-scope enumeration: every catalogue operation x every geometry
and parameter tuple of the tier x optimize_graph on/off, compositions (programs)
with every requested subset, and an executor slice on the real threads /
processes / single-threaded executors.  Oracle: NumPy on the same data.
"""
from __future__ import annotations

from collections import Counter

from ..catalog import OPS, cases, uncatalogued
from ..common import Problem
from ..runcase import run_case
from ..sweep import sweep

PROPERTY = "C01"
LEVEL = "exploration"


def classify(case, obs, optimize, executor):
    ins = case["inputs"]
    chunks_differ = len({tuple(i["chunks"]) for i in ins}) > 1
    return dict(op=case["op"], kind="value-mismatch", operand_chunks_differ=chunks_differ, fn=case["params"].get("fn"))


def eval_case(case, seed, tier):
    cnt = Counter()
    probs = []
    variants = case.get("_variants") or [(True, "controlled"), (False, "controlled")]
    for optimize, executor in variants:
        obs = run_case(case, seed=seed, optimize=optimize, executor=executor)
        cnt["evaluations"] += 1
        cnt[f"all|{case['op']}|{case['params'].get('fn') or case['params'].get('op') or case['params'].get('mode') or case['params'].get('pa') or ''}"] += 1
        if not obs.ref_ok:
            cnt["numpy_refuses"] += 1
            continue
        if obs.phase != "OK":
            cnt["declined_or_error"] += 1
            cnt[f"phase_{obs.phase}"] += 1
            continue
        cnt["compared"] += 1
        cnt[f"cmp|{case['op']}|{case['params'].get('fn') or case['params'].get('op') or case['params'].get('mode') or case['params'].get('pa') or ''}"] += 1
        if obs.nontrivial and optimize:
            cnt["nontrivial"] += 1
        if obs.mismatch:
            probs.append((classify(case, obs, optimize, executor),
                          f"{case['op']} {case['params']} inputs={[(i['shape'], i['chunks'], i['dtype']) for i in case['inputs']]} "
                          f"optimize={optimize} executor={executor}: {obs.mismatch}"))
            break
    return cnt, probs


def replay_case(case):
    _, probs = eval_case(case, case.get("_seed", 0), "quick")
    return [Problem(sig, case, d) for sig, d in probs]


def executor_slice(tier):
    """one even + one uneven multi-block case per operation on the real executors"""
    out = []
    seen = {}
    for case in cases("quick"):
        ins = case["inputs"]
        if not ins:
            continue
        sh, ch = ins[0]["shape"], ins[0]["chunks"]
        if not sh or not any(n > c for n, c in zip(sh, ch)):
            continue
        uneven = any(n % c for n, c in zip(sh, ch))
        key = (case["op"], case["params"].get("fn"), uneven)
        if key in seen:
            continue
        seen[key] = True
        execs = ["threads", "single-threaded"] + (["processes"] if tier == "thorough" else [])
        out.append(dict(case, _variants=[(True, e) for e in execs]))
    return out


def run(ctx):
    from ..programs import program_cases
    tier = ctx.tier
    cs = list(cases(tier))
    if tier == "quick":
        # optimize off on the half of the cases with even index (deterministic partition, reported)
        for i, c in enumerate(cs):
            if i % 2:
                c["_variants"] = [(True, "controlled")]
    total = sweep(ctx, __name__, cs)
    sl = executor_slice(tier)
    total2 = sweep(ctx, __name__, sl, chunksize=20)
    pc = list(program_cases(tier))
    from . import c01_programs
    total3 = sweep(ctx, c01_programs.__name__, pc, chunksize=20)
    ctx.set("evaluations", total["evaluations"] + total2["evaluations"] + total3["evaluations"])
    ctx.set("distinct_nontrivial", total["nontrivial"] + total3["nontrivial"])
    ctx.set("compared_with_numpy", total["compared"] + total2["compared"] + total3["compared"])
    ctx.set("declined_or_error_not_judged_here", total["declined_or_error"] + total2["declined_or_error"] + total3["declined_or_error"])
    ctx.set("numpy_refuses_skipped", total["numpy_refuses"])
    ctx.set("catalogue_cases", len(cs))
    ctx.set("executor_slice_cases", len(sl))
    ctx.set("program_cases", len(pc))
    ctx.set("operations", len(OPS))
    # vacuity guard: catalogue entries (operation, variant) none of whose cases was ever compared with NumPy
    allk = {k[4:] for k in total if k.startswith("all|")}
    cmpk = {k[4:] for k in total if k.startswith("cmp|")}
    ctx.set("operation_variants", len(allk))
    ctx.set("operation_variants_never_compared", sorted(allk - cmpk))
    ctx.set("uncatalogued_public_callables", uncatalogued())
    ctx.set("rule", "case = (operation, every input shape x regular chunking of the tier, parameter tuple) x optimize_graph on/off "
            "(quick: off on every second case); distinct_nontrivial = distinct cases compared with NumPy in which some input has >= 2 blocks "
            "along an axis (plus program cases with >= 2 blocks); declined / erroring cases are C17's")
    ctx.assumptions += ["NumPy is the oracle; exact comparison except allclose(rtol 1e-9) for mean/var/std/prod and transcendental functions, invariants for qr/svd",
                        "task bodies are executed sequentially by the controlled executor (executor independence is C06/C07); real executors on a slice"]
