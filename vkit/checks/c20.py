"""C20 - serialized arrays compute the same and are never confused with other arrays.

Every scenario of the product  producer program (built in a FRESH interpreter,
name counters at 001, shipped with cloudpickle)  x  receiver (same process, or
a fresh interpreter that has already created k = 0..4 arrays and ops)  x  use
(compute alone, local-d, d-local, d1-d2 from the same / from two producers,
d with its in-process original)  x  optimize_graph, judged against NumPy.
"""
from __future__ import annotations

import json
import os
import shutil
import subprocess
import sys
import tempfile
from collections import Counter

import numpy as np

from ..common import HarnessError, Problem, perm

PROPERTY = "C20"
LEVEL = "model_checking"

PY = "/venv/bin/python"
PRODUCERS = ["input", "add1", "chain", "reduction", "rechunked"]
USES = ["alone", "local-d", "d-local", "d-d-same", "d1-d2-two", "d-original"]

PRODUCER_SRC = r'''
import sys, json, numpy as np, cloudpickle, cubed, cubed.array_api as xp
work, out, prog, base = sys.argv[1], sys.argv[2], sys.argv[3], float(sys.argv[4])
spec = cubed.Spec(work_dir=work, allowed_mem=200000)
x = xp.asarray(np.arange(8.0) + base, chunks=4, spec=spec)
if prog == "input":
    y = x
elif prog == "add1":
    y = xp.add(x, 1.0)
elif prog == "chain":
    y = xp.negative(xp.add(xp.negative(x), 3.0))
elif prog == "reduction":
    y = xp.subtract(x, xp.sum(x))
elif prog == "rechunked":
    # the rechunk is not fused, so its input is a materialised intermediate read back by name
    y = xp.negative(xp.add(x, 1.0).rechunk((8,)))
if len(sys.argv) > 5 and sys.argv[5] == "1":
    # the sender computes the array itself before shipping it (default executor, tasks run in this process) and then exits:
    # whatever that run left on the array's plan objects travels inside the pickle, the sender's storage does not survive
    y.compute()
open(out, "wb").write(cloudpickle.dumps(y))
'''

RECEIVER_SRC = r'''
import sys, json, traceback
def _fatal(exc_type, exc, tb):
    # anything that goes wrong outside the guarded sections (e.g. the receiver's own local computation) is reported, not lost
    print(json.dumps(dict(ok=False, exc=exc_type.__name__, msg="receiver failed outside combine/compute: " + str(exc)[:200], names_local=[], names_d=[])))
    sys.exit(0)
sys.excepthook = _fatal
import numpy as np, cloudpickle, cubed, cubed.array_api as xp
from cubed.runtime.create import create_executor
work, p1, p2, k, use, opt = sys.argv[1], sys.argv[2], sys.argv[3], int(sys.argv[4]), sys.argv[5], sys.argv[6] == "1"
precompute = len(sys.argv) > 7 and sys.argv[7] == "1"
spec = cubed.Spec(work_dir=work, allowed_mem=200000)
if precompute:
    # the receiver has already run a computation of its own before deserializing anything: same construction order as the
    # 'rechunked' producer (so that with k = 0 its materialised intermediate carries the same gensym name), default executor
    a0 = xp.asarray(np.arange(8.0) + 7.0, chunks=4, spec=spec)
    wloc = xp.negative(xp.add(a0, 5.0).rechunk((8,)))
    assert np.array_equal(wloc.compute(), -(np.arange(8.0) + 12.0))
pre = []
for j in range(k):
    pre.append(xp.negative(xp.asarray(np.zeros(2) + j, spec=spec)))
a = xp.asarray(np.arange(8.0), chunks=4, spec=spec)
b = xp.negative(a)
ex = create_executor("single-threaded")
d = cloudpickle.loads(open(p1, "rb").read())
names_local = sorted(set(b._plan.dag.nodes))
names_d = sorted(set(d._plan.dag.nodes))
try:
    if use == "alone":
        r = d
    elif use == "local-d":
        r = xp.subtract(b, d)
    elif use == "d-local":
        r = xp.subtract(d, b)
    elif use == "d-d-same":
        d2 = cloudpickle.loads(open(p1, "rb").read())
        r = xp.subtract(xp.multiply(d, 2.0), d2)
    elif use == "d1-d2-two":
        d2 = cloudpickle.loads(open(p2, "rb").read())
        names_local = sorted(set(d2._plan.dag.nodes))
        r = xp.subtract(d, d2)
except Exception as e:
    print(json.dumps(dict(ok=False, exc=type(e).__name__, msg="while combining: " + str(e)[:200], names_local=names_local, names_d=names_d)))
    sys.exit(0)
try:
    v = r.compute(executor=ex, optimize_graph=opt)
    print(json.dumps(dict(ok=True, value=np.asarray(v).tolist(), names_local=names_local, names_d=names_d)))
except Exception as e:
    print(json.dumps(dict(ok=False, exc=type(e).__name__, msg=str(e)[:200], names_local=names_local, names_d=names_d)))
'''


def producer_value(prog, base):
    x = np.arange(8.0) + base
    if prog == "input":
        return x
    if prog == "add1":
        return x + 1
    if prog == "chain":
        return -((-x) + 3.0)
    if prog == "reduction":
        return x - x.sum()
    if prog == "rechunked":
        return -(x + 1)


def expected(use, v1, v2):
    b = -np.arange(8.0)
    if use == "d1-d2-two":
        return v1 - v2
    return {"alone": v1, "local-d": b - v1, "d-local": v1 - b, "d-d-same": 2 * v1 - v1}[use]


def run_py(src, args, timeout=900):
    env = dict(os.environ, PYTHONWARNINGS="ignore")
    r = subprocess.run([PY, "-W", "ignore", "-c", src, *map(str, args)], capture_output=True, text=True, timeout=timeout, env=env)
    return r


def produce(work, prog, base_value, computed=False):
    out = os.path.join(work, f"{prog}-{base_value}{'-computed' if computed else ''}.pkl")
    if not os.path.exists(out):
        r = run_py(PRODUCER_SRC, [work, out, prog, base_value, "1" if computed else "0"])
        if r.returncode != 0:
            raise HarnessError(f"producer failed: {r.stderr[-400:]}")
    return out


def _produce_item(item):
    return produce(*item)


def scenario(item):
    prog, k, use, opt, seed, work = item[:6]
    pre = bool(item[6]) if len(item) > 6 else False
    sent_computed = bool(item[7]) if len(item) > 7 else False
    own = work is None
    if own:
        work = tempfile.mkdtemp(prefix="vkit-c20-")
    try:
        b1, b2 = 1000.0 + seed, 5000.0 + seed
        case = dict(producer=prog, k=k, use=use, optimize=opt, seed=seed, receiver_precomputed=pre)
        if sent_computed:
            case["sender_computed"] = True
        if use == "d-original" or k == "same-process":
            return case, same_process(prog, use, opt, work, b1)
        p1 = produce(work, prog, b1, sent_computed)
        p2 = p1
        v2 = None
        if use == "d1-d2-two":
            other = PRODUCERS[(PRODUCERS.index(prog) + 1) % len(PRODUCERS)]
            p2 = produce(work, other, b2)
            v2 = producer_value(other, b2)
        r = run_py(RECEIVER_SRC, [work, p1, p2, k, use, "1" if opt else "0", "1" if pre else "0"])
        if r.returncode != 0 or not r.stdout.strip():
            raise HarnessError(f"receiver failed: {r.stderr[-400:]}")
        out = json.loads(r.stdout.strip().splitlines()[-1])
        v1 = producer_value(prog, b1)
        exp = expected(use, v1, v2)
        collide = sorted(set(out["names_local"]) & set(out["names_d"]))
        probs = []
        if not out["ok"]:
            probs.append((dict(kind="deserialized-compute-failed", name_collision=bool(collide), cross_process=True),
                          f"{case}: {out['exc']}: {out['msg']} (colliding names: {collide[:4]})"))
        elif not np.allclose(np.asarray(out["value"]), exp):
            probs.append((dict(kind="wrong-value", name_collision=bool(collide), cross_process=True),
                          f"{case}: computed {out['value']}, expected {exp.tolist()} (colliding names: {collide[:4]})"))
        return case, probs
    finally:
        if own:
            shutil.rmtree(work, ignore_errors=True)


def same_process(prog, use, opt, work, base):
    import cloudpickle
    import cubed
    import cubed.array_api as xp
    from cubed.runtime.create import create_executor

    spec = cubed.Spec(work_dir=work, allowed_mem=200000)
    x = xp.asarray(np.arange(8.0) + base, chunks=4, spec=spec)
    y = {"input": lambda: x, "add1": lambda: xp.add(x, 1.0), "chain": lambda: xp.negative(xp.add(xp.negative(x), 3.0)),
         "reduction": lambda: xp.subtract(x, xp.sum(x)), "rechunked": lambda: xp.negative(xp.add(x, 1.0).rechunk((8,)))}[prog]()
    v = producer_value(prog, base)
    d = cloudpickle.loads(cloudpickle.dumps(y))
    ex = create_executor("single-threaded")
    a = xp.asarray(np.arange(8.0), chunks=4, spec=spec)
    b = xp.negative(a)
    bv = -np.arange(8.0)
    probs = []
    checks = {
        "alone": (lambda: d, v),
        "local-d": (lambda: xp.subtract(b, d), bv - v),
        "d-local": (lambda: xp.subtract(d, b), v - bv),
        "d-original": (lambda: xp.subtract(xp.multiply(d, 2.0), y), v),
        "d-d-same": (lambda: xp.subtract(xp.multiply(d, 2.0), cloudpickle.loads(cloudpickle.dumps(y))), v),
    }
    for u, (f, exp) in checks.items():
        if use not in (u, "d-original"):
            continue
        try:
            got = f().compute(executor=ex, optimize_graph=opt)
            if not np.allclose(got, exp):
                probs.append((dict(kind="wrong-value", name_collision=False, cross_process=False), f"same process, {prog}, use {u}, optimize={opt}: computed {np.asarray(got).tolist()}, expected {exp.tolist()}"))
        except Exception as e:
            probs.append((dict(kind="deserialized-compute-failed", name_collision=False, cross_process=False), f"same process, {prog}, use {u}, optimize={opt}: {type(e).__name__}: {str(e)[:150]}"))
    return probs


def replay_case(case):
    _, probs = scenario((case["producer"], case["k"], case["use"], case["optimize"], case.get("seed", 0), None, case.get("receiver_precomputed", False), case.get("sender_computed", False)))
    return [Problem(sig, case, t) for sig, t in probs]


def run(ctx):
    tier = ctx.tier
    ks = (0, 1, 3) if tier == "quick" else (0, 1, 2, 3, 4, 6)
    work = tempfile.mkdtemp(prefix="vkit-c20-")
    # every producer is built once, each in its own fresh interpreter
    ctx.pmap(_produce_item, [(work, prog, b + ctx.seed) for prog in PRODUCERS for b in (1000.0, 5000.0)] + [(work, prog, 1000.0 + ctx.seed, True) for prog in PRODUCERS])
    opts = (True,) if tier == "quick" else (True, False)
    items = []
    for prog in PRODUCERS:
        for use in USES:
            for opt in opts:
                if use == "d-original":
                    items.append((prog, "same-process", use, opt, ctx.seed, work, False))
                    continue
                for k in ks:
                    items.append((prog, k, use, opt, ctx.seed, work, False))
                    if use in ("alone", "local-d") and (tier == "thorough" or k in (0, 3)):
                        items.append((prog, k, use, opt, ctx.seed, work, True))
                    if use in ("alone", "d-local") and (tier == "thorough" or k == 3):
                        # the sender computed the array before shipping it and has exited
                        items.append((prog, k, use, opt, ctx.seed, work, False, True))
    n = 0
    outcomes = Counter()
    try:
        for case, probs in ctx.pmap(scenario, perm(items, ctx.seed)):
            n += 1
            outcomes["violating" if probs else "correct"] += 1
            for sig, text in probs:
                ctx.problem(sig, case, text)
    finally:
        shutil.rmtree(work, ignore_errors=True)
    ctx.set("states", n)
    ctx.set("transitions", n * 3)
    ctx.set("traces_validated_against_impl", n)
    ctx.set("evaluations", n)
    ctx.set("distinct_nontrivial", n)
    ctx.set("scenario_outcomes", dict(outcomes))
    ctx.set("rule", "scenario = (producer program, arrays/ops the receiver created before deserializing, use, optimize_graph); states = scenarios, "
            "transitions = interpreter-level events per scenario (build+dump, pre-create+load, combine+compute)")
    ctx.sample(dict(producer="add1", receiver_precreated=1, use="local-d", optimize=True))
    ctx.assumptions += ["both sides use an equal Spec (same work_dir) as the spec check requires", "one producer and one receiver interpreter per scenario"]
