from __future__ import annotations

from collections import Counter

from ..traceinv import produced_arrays, single_writer
from ..tstore import World
from .c01_programs import run_program


def eval_case(case, seed, tier):
    cnt = Counter()
    probs = []
    for optimize in ((True,) if tier == "quick" else (True, False)):
        world = World()
        try:
            r = run_program(case, seed, optimize, world=world, keep=True)
            cnt["evaluations"] += 1
            if r["phase"] != "OK":
                cnt["declined_or_error"] += 1
                continue
            cnt["checked"] += 1
            pa = produced_arrays(world)
            cnt["produced_arrays"] += len(pa)
            cnt["chunk_writes"] += sum(len(v) for v in pa.values())
            cnt["nontrivial"] += 1
            for kind, text in single_writer(world)[:1]:
                probs.append((dict(op="program", kind=kind), f"program {case['terms']} optimize={optimize}: {text}"))
        finally:
            world.dispose()
    return cnt, probs
