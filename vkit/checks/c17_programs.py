from __future__ import annotations

from collections import Counter

from .c01_programs import run_program, uses
from .c17 import judge


def eval_case(case, seed, tier):
    cnt = Counter()
    probs = []
    for optimize in ((True,) if tier == "quick" else (True, False)):
        r = run_program(case, seed, optimize)
        cnt["evaluations"] += 1
        cnt["judged"] += 1
        if r["phase"] != "OK":
            cnt[f"refused_{r['phase']}_{r['exc_type']}"] += 1
            cnt["nontrivial"] += 1
        k = judge(r["phase"], r["exc_type"], r.get("exc_mro"))
        if k:
            probs.append((dict(op="program", kind=k, phase=r["phase"], exc=r["exc_type"], uses_stack=uses(case, "stack0")),
                          f"program {case['terms']} optimize={optimize}: {r['phase']} {r['exc_type']}: {r['exc_msg']}"))
            break
    return cnt, probs
