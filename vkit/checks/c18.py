"""C18 - resource specs cannot be mixed silently; memory settings mean what they say.

(i)   every catalogued entry point taking >= 2 arrays x every argument position
      x pairs of Specs differing in exactly one field: ValueError, or no
      returned array's plan contains both inputs; compute/store/plan/visualize
      over two arrays likewise.
(ii)  every size literal of a grammar (ints, floats, unit strings, malformed
      strings) against exact rational arithmetic.
(iii) for every catalogued operation the memory budget seen by every primitive
      op of the finalized plan equals the Spec's.
"""
from __future__ import annotations

import itertools
import math
from collections import Counter
from decimal import Decimal, InvalidOperation
from fractions import Fraction

import numpy as np

from ..catalog import OPS, cases
from ..common import Problem, perm

PROPERTY = "C18"
LEVEL = "exploration"

FIELDS = ["work_dir", "intermediate_store", "allowed_mem", "reserved_mem", "executor", "storage_options", "zarr_compressor"]


def spec_pair(field):
    import cubed
    from cubed.runtime.create import create_executor
    from zarr.storage import MemoryStore

    base = dict(allowed_mem=4_000_000, reserved_mem=0)
    a, b = dict(base), dict(base)
    if field == "work_dir":
        a["work_dir"], b["work_dir"] = "/tmp/vkit-c18-a", "/tmp/vkit-c18-b"
    elif field == "intermediate_store":
        s1, s2 = MemoryStore(), MemoryStore()
        from zarr.core.buffer import default_buffer_prototype
        s2._store_dict["marker"] = default_buffer_prototype().buffer.from_bytes(b"x")
        a["intermediate_store"], b["intermediate_store"] = s1, s2
    elif field == "allowed_mem":
        b["allowed_mem"] = 8_000_000
    elif field == "reserved_mem":
        b["reserved_mem"] = 1000
    elif field == "executor":
        a["executor"], b["executor"] = create_executor("single-threaded"), create_executor("threads")
    elif field == "storage_options":
        b["storage_options"] = {"anon": True}
    elif field == "zarr_compressor":
        b["zarr_compressor"] = None
    s1, s2 = cubed.Spec(**a), cubed.Spec(**b)
    return s1, s2  # if the library considers them equal although they differ in `field`, the mix below is accepted and reported


CONFIG_FIELDS = {"work_dir": ("/tmp/vkit-c18-a", "/tmp/vkit-c18-b"), "allowed_mem": (4_000_000, 8_000_000), "reserved_mem": (0, 1000),
                 "executor": ("single-threaded", "threads"), "zarr_compressor": ("auto", None)}


def config_pair(field):
    """the same two resource settings expressed through the global configuration (arrays are then created without spec=)"""
    base = {"spec.allowed_mem": 4_000_000, "spec.reserved_mem": 0, "spec.work_dir": "/tmp/vkit-c18-a", "spec.executor_name": "single-threaded"}
    key = "spec.executor_name" if field == "executor" else f"spec.{field}"
    va, vb = CONFIG_FIELDS[field]
    return dict(base, **{key: va}), dict(base, **{key: vb}), key


def multi_array_cases():
    seen = {}
    for c in cases("quick"):
        if len(c["inputs"]) >= 2:
            key = (c["op"], c["params"].get("fn"), c["params"].get("op"), c["params"].get("mode"), c["params"].get("kind"), len(c["inputs"]))
            ins = c["inputs"]
            if key not in seen and all(np.prod(i["shape"]) > 0 for i in ins):
                seen[key] = c
    out = list(seen.values())
    # indexing with a cubed array and take: built specially
    out.append(dict(op="@index-by-array", inputs=[dict(shape=[5], chunks=[2], dtype="float64", kind="distinct"), dict(shape=[2], chunks=[2], dtype="int64", kind="pos")], params={}))
    out.append(dict(op="@take-array", inputs=[dict(shape=[5], chunks=[2], dtype="float64", kind="distinct"), dict(shape=[2], chunks=[2], dtype="int64", kind="pos")], params={}))
    for name in ("@compute", "@plan", "@visualize", "@store", "@store-lazy"):
        out.append(dict(op=name, inputs=[dict(shape=[4], chunks=[2], dtype="float64", kind="distinct")] * 2, params={}))
    return out


def eval_mix(item):
    case, field = item
    import cubed
    import cubed.array_api as xp
    from ..runcase import np_inputs
    from ..scope import mkdata

    cnt = Counter()
    probs = []
    n = len(case["inputs"])
    if case["op"].startswith("@"):
        ns = [mkdata(tuple(i["shape"]), i["dtype"], k, 0, i["kind"]) for k, i in enumerate(case["inputs"])]
        if case["op"] in ("@index-by-array", "@take-array"):
            ns[1] = np.array([0, 1])
    else:
        ns = np_inputs(case)
    via_config = isinstance(field, (tuple, list))
    if via_config:
        field = field[1]
    for p in range(n):
        xs = []
        if via_config:
            # each array is created WITHOUT spec= while a global configuration is in force; the call under test is made
            # after the configuration blocks have been left (an array keeps the resources it was created under)
            c1, c2, ckey = config_pair(field)
            for k, (i, a) in enumerate(zip(case["inputs"], ns)):
                cfg = c1 if k == p else c2
                with cubed.config.set(cfg):
                    x = xp.asarray(a, chunks=tuple(i["chunks"]))
                    inside = (x.spec.allowed_mem, x.spec.reserved_mem, x.spec.work_dir, x.spec.executor_name, x.spec.zarr_compressor)
                xs.append(x)
                after = (x.spec.allowed_mem, x.spec.reserved_mem, x.spec.work_dir, x.spec.executor_name, x.spec.zarr_compressor)
                want = (cfg["spec.allowed_mem"], cfg["spec.reserved_mem"], cfg["spec.work_dir"], cfg["spec.executor_name"], cfg.get("spec.zarr_compressor", inside[4]))
                if (inside != want or after != want) and "spec-changed" not in cnt:
                    cnt["spec-changed"] += 1
                    probs.append((dict(kind="spec-not-the-one-configured", entry=case["op"], field=field),
                                  f"an array created without spec= under the global configuration {ckey}={cfg[ckey]!r} reports (allowed_mem, reserved_mem, work_dir, executor_name, zarr_compressor) = {inside} inside the configuration block and {after} after it; configured: {want}"))
        else:
            s1, s2 = spec_pair(field)
            for k, (i, a) in enumerate(zip(case["inputs"], ns)):
                xs.append(xp.asarray(a, chunks=tuple(i["chunks"]), spec=s1 if k == p else s2))
        cnt["evaluations"] += 1
        outs = None
        err = None
        try:
            name = case["op"]
            if name == "@index-by-array":
                outs = (xs[0][xs[1]],)
            elif name == "@take-array":
                outs = (xp.take(xs[0], xs[1], axis=0),)
            elif name == "@compute":
                cubed.compute(*xs)
                outs = "ran"
            elif name == "@plan":
                cubed.plan(*xs)
                outs = "ran"
            elif name == "@visualize":
                import tempfile, os
                d = tempfile.mkdtemp(prefix="vkit-c18-")
                try:
                    cubed.visualize(*xs, filename=os.path.join(d, "g"), format="svg")
                finally:
                    import shutil
                    shutil.rmtree(d, ignore_errors=True)
                outs = "ran"
            elif name in ("@store", "@store-lazy"):
                from zarr.storage import MemoryStore
                r = cubed.store([xp.negative(x) for x in xs], [MemoryStore(), MemoryStore()], compute=(name == "@store"))
                outs = "ran" if name == "@store" else tuple(r)
                if name == "@store-lazy":
                    cubed.compute(*outs)
                    outs = "ran"
            else:
                op = OPS[name]
                r = op.build(xs, case["params"])
                outs = tuple(r) if isinstance(r, (tuple, list)) else (r,)
        except ValueError as e:
            err = e
            cnt["rejected"] += 1
        except Exception as e:
            err = e
            cnt["other-exception"] += 1
            # an error other than ValueError still prevents a mixed computation; not judged here (C17 judges types)
        if err is None:
            if outs == "ran":
                probs.append((dict(kind="mixed-specs-ran", entry=case["op"], field=field, **({"via": "config"} if via_config else {})),
                              f"{case['op']} over arrays whose specs differ in {field}{' (set through the global configuration at creation time)' if via_config else ''} ran without an error (array {p} differs)"))
                continue
            mixed = False
            for o in outs:
                nodes = set(o._plan.dag.nodes) if hasattr(o, "_plan") else set()
                if xs[p].name in nodes and any(x.name in nodes for k, x in enumerate(xs) if k != p):
                    mixed = True
            if mixed:
                probs.append((dict(kind="mixed-specs-accepted", entry=case["op"], fn=case["params"].get("fn") or case["params"].get("op") or case["params"].get("mode"), field=field, **({"via": "config"} if via_config else {})),
                              f"{case['op']} {case['params']} accepted arrays whose specs differ in {field}{' (set through the global configuration at creation time)' if via_config else ''} (argument {p} differs) and returned an array whose plan contains both"))
            else:
                cnt["accepted-unmixed"] += 1
    return cnt, probs


# ---------------------------------------------------------------- literals
UNITS = {"": 0, "B": 0, "kB": 1, "MB": 2, "GB": 3, "TB": 4, "PB": 5}
BAD_UNITS = ["KB", "kb", "KiB", "MiB", "b", "k", "M", "mB", "Bk", "bytes", "EB"]


def literals(tier):
    # ints
    for v in list(range(0, 1001)) + [10 ** k + d for k in range(3, 19) for d in (-1, 0, 1)] + [2 ** 53 - 1, 2 ** 53, 2 ** 53 + 1, 2 ** 63, -1, -1000]:
        yield v
    # floats
    for v in [0.0, 1.0, 1.5, 1e3, 1e15, 1e16, 2.0 ** 53, 1e20, float("nan"), float("inf"), -float("inf"), -1.0, -0.0, 0.1, 1e-9, 123456.0, 999999999.999]:
        yield v
    mant = ["0", "1", "7", "10", "12", "100", "123", "999", "1000", "1024", "1234", "9999", "1.5", "0.5", "0.001", "2.5", "12.5", "1.25", "0.125", "1.001",
            "1e3", "1E3", "1.5e3", "2e-3", ".5", "5.", "1_000", "+5", "-5", "-0", "1.0000000000000001", "9007199254740993", "10000000000000001",
            "12345678901234567", "123456789012345678", "1234567890123456789", "0.1", "0.3", "0.7", "0.57", "1.1", "4.35", "inf", "nan", "", " ", "1 ", " 1", "1 000",
            "0x10", "1e", "e3", "--1", "1.2.3", "1,5", "１２"]
    if tier == "thorough":
        mant += [str(m) for m in range(0, 10000, 7)] + [f"{a}.{b}" for a in range(0, 30) for b in ("1", "25", "75", "001", "999")]
    for m in mant:
        for u in list(UNITS) + BAD_UNITS:
            yield m + u
            if u and m:
                yield m + " " + u
    for s in ["kB", "B", "MB", "1kBB", "1 k B", "1kB ", "kB1", "1e3kB", "1.5GB", "0.5kB", "0.0005MB", "1e-3kB", "1e-4kB", "2.5B", "0.5B", "1e400", "1e400kB"]:
        yield s


def exact_value(lit):
    """(accepted?, exact integer) by the documented semantics: <number>[ ]<unit>, decimal SI, whole non-negative bytes.
    Returns ('int', v) / ('reject', None) / ('any', None) when the literal is outside the grammar (then only exactness is checked if accepted)."""
    if isinstance(lit, bool):
        return ("any", None)
    if isinstance(lit, int):
        return ("int", lit) if lit >= 0 else ("reject", None)
    if isinstance(lit, float):
        if math.isnan(lit) or math.isinf(lit):
            return ("reject", None)
        f = Fraction(lit)
        if f.denominator != 1 or f < 0:
            return ("reject", None)
        return ("int", int(f))
    s = lit.replace(" ", "")
    for u in sorted(UNITS, key=len, reverse=True):
        if u and s.endswith(u):
            num, k = s[: -len(u)], UNITS[u]
            break
    else:
        num, k = s, 0
    try:
        float(num)  # Python float syntax is what cubed accepts as 'numeric'
        d = Decimal(num.replace("_", "")) if not any(ch in num.lower() for ch in ("inf", "nan")) else None
    except (ValueError, InvalidOperation):
        return ("reject", None)
    if d is None or not d.is_finite():
        return ("reject", None)
    f = Fraction(d) * (1000 ** k)
    if f.denominator != 1 or f < 0:
        return ("reject", None)
    return ("int", int(f))


def eval_literals(item):
    lits = item
    from cubed.utils import convert_to_bytes
    import cubed

    cnt = Counter()
    probs = []
    seen = set()
    for lit in lits:
        cnt["literals"] += 1
        want = exact_value(lit)
        try:
            got = convert_to_bytes(lit)
            ok = True
        except Exception as e:
            got = e
            ok = False
        if ok:
            cnt["accepted"] += 1
            if want[0] == "int":
                if got != want[1] or isinstance(got, bool) or not isinstance(got, int):
                    digits = len(str(want[1]).rstrip("0")) if want[1] else 1
                    kind = "imprecise-size" if digits >= 16 or want[1] >= 2 ** 53 else "wrong-size"
                    if (kind, type(lit).__name__) not in seen:
                        seen.add((kind, type(lit).__name__))
                        probs.append((dict(kind=kind, literal_type=type(lit).__name__), dict(part="literal", literal=repr(lit)),
                                      f"convert_to_bytes({lit!r}) = {got!r}, exact value is {want[1]}"))
            elif want[0] == "reject":
                k = ("accepted-invalid", type(lit).__name__)
                if k not in seen:
                    seen.add(k)
                    probs.append((dict(kind="accepted-invalid-size", literal_type=type(lit).__name__), dict(part="literal", literal=repr(lit)),
                                  f"convert_to_bytes({lit!r}) = {got!r}, but the literal denotes no whole non-negative number of bytes"))
        else:
            cnt["rejected"] += 1
        # a Spec must read the literal exactly as convert_to_bytes does - same acceptance, same number - whatever the other
        # memory setting is (allowed_mem=None means 'not given' and is not a literal)
        if isinstance(lit, bool):
            continue
        for field, kw in (("allowed_mem", dict(allowed_mem=lit)), ("allowed_mem", dict(allowed_mem=lit, reserved_mem=1000)),
                          ("allowed_mem", dict(allowed_mem=lit, reserved_mem="2kB")), ("reserved_mem", dict(allowed_mem=10 ** 12, reserved_mem=lit))):
            if field == "reserved_mem" and not lit:
                continue  # 0, 0.0 and "" all mean 'nothing reserved'
            cnt["spec_literals"] += 1
            try:
                sp = cubed.Spec(**kw)
                sgot, sok = getattr(sp, field), True
            except Exception as e:
                sgot, sok = e, False
            if sok != ok or (ok and sgot != got):
                k = ("spec", field, sok, ok)
                if k not in seen:
                    seen.add(k)
                    a = f"= {sgot!r}" if sok else f"raises {type(sgot).__name__}"
                    b = f"= {got!r}" if ok else f"raises {type(got).__name__}"
                    probs.append((dict(kind="spec-reads-size-differently", field=field), dict(part="literal", literal=repr(lit)),
                                  f"Spec({', '.join(f'{x}={y!r}' for x, y in kw.items())}).{field} {a}, but convert_to_bytes({lit!r}) {b}"))
    return cnt, probs


# ---------------------------------------------------------------- budgets in plans
def eval_budget(item):
    chunk = item
    import cubed
    from ..runcase import cubed_inputs, np_inputs
    from ..tstore import World

    cnt = Counter()
    probs = []
    seen = set()
    for case in chunk:
        op = OPS[case["op"]]
        w = World()
        try:
            spec = cubed.Spec(intermediate_store=w.store("inter"), allowed_mem=3_141_592, reserved_mem=2_718)
            try:
                xs = cubed_inputs(case, np_inputs(case), spec, w)
                if getattr(op, "special", False):
                    outs = (xs[0],)
                elif getattr(op, "needs_spec", False):
                    r = op.build(xs, case["params"], spec=spec)
                    outs = tuple(r) if isinstance(r, (tuple, list)) else (r,)
                else:
                    r = op.build(xs, case["params"])
                    outs = tuple(r) if isinstance(r, (tuple, list)) else (r,)
                plan = cubed.plan(*outs)
            except Exception:
                cnt["declined"] += 1
                continue
            cnt["plans"] += 1
            for n, d in plan.dag.nodes(data=True):
                po = d.get("primitive_op")
                if po is None:
                    continue
                cnt["ops"] += 1
                if po.allowed_mem != spec.allowed_mem or po.reserved_mem != spec.reserved_mem:
                    if case["op"] not in seen:
                        seen.add(case["op"])
                        probs.append((dict(kind="budget-differs", op=case["op"]), dict(part="budget", case=case),
                                      f"{case['op']} {case['params']}: op {n} runs under allowed_mem={po.allowed_mem} reserved_mem={po.reserved_mem}, the Spec says {spec.allowed_mem}/{spec.reserved_mem}"))
            for o in outs:
                if o.spec is not spec and o.spec != spec:
                    if ("spec", case["op"]) not in seen:
                        seen.add(("spec", case["op"]))
                        probs.append((dict(kind="result-spec-differs", op=case["op"]), dict(part="budget", case=case), f"{case['op']}: result carries a different Spec than its operands"))
        finally:
            w.dispose()
    return cnt, probs


def replay_case(case):
    if case.get("part") == "literal":
        import ast
        lit = ast.literal_eval(case["literal"]) if not case["literal"].startswith(("nan", "inf", "-inf")) else float(case["literal"])
        _, probs = eval_literals([lit])
    elif case.get("part") == "budget":
        _, probs = eval_budget([case["case"]])
    else:
        _, probs = eval_mix((case["case"], case["field"]))
    return [Problem(sig, case, d) for sig, d in [(p[0], p[-1]) for p in probs]]


def run(ctx):
    tier = ctx.tier
    tot = Counter()
    mc = multi_array_cases()
    items = [(c, f) for c in mc for f in FIELDS] + [(c, ("config", f)) for c in mc for f in CONFIG_FIELDS]
    for (case, field), (cnt, probs) in zip(items, ctx.pmap(eval_mix, items, chunksize=8)):
        tot.update({"mix_" + k: v for k, v in cnt.items()})
        for sig, text in probs:
            ctx.problem(sig, dict(case=case, field=field), text)
    lits = list(dict.fromkeys([(type(l).__name__, repr(l), l) for l in literals(tier)]))
    lits = [l[2] for l in lits]
    for cnt, probs in ctx.pmap(eval_literals, [lits[i::16] for i in range(16)]):
        tot.update({"lit_" + k: v for k, v in cnt.items()})
        for sig, case, text in probs:
            ctx.problem(sig, case, text)
    seen = {}
    for c in cases("quick"):
        key = (c["op"], c["params"].get("fn"), c["params"].get("mode"))
        if key not in seen or (not any(n > ch for i in seen[key]["inputs"] for n, ch in zip(i["shape"], i["chunks"])) and any(n > ch for i in c["inputs"] for n, ch in zip(i["shape"], i["chunks"]))):
            seen[key] = c
    bc = list(seen.values())
    for cnt, probs in ctx.pmap(eval_budget, [bc[i::16] for i in range(16)]):
        tot.update({"budget_" + k: v for k, v in cnt.items()})
        for sig, case, text in probs:
            ctx.problem(sig, case, text)
    ctx.set("evaluations", tot["mix_evaluations"] + tot["lit_literals"] + tot["budget_plans"])
    ctx.set("distinct_nontrivial", tot["mix_evaluations"] + tot["lit_accepted"])
    ctx.set("multi_array_entry_points", len(mc))
    ctx.set("spec_fields", FIELDS)
    ctx.set("mixed_spec_calls", tot["mix_evaluations"])
    ctx.set("mixed_spec_calls_rejected", tot["mix_rejected"])
    ctx.set("mixed_spec_calls_accepted_unmixed", tot["mix_accepted-unmixed"])
    ctx.set("mixed_spec_calls_other_exception", tot["mix_other-exception"])
    ctx.set("size_literals", tot["lit_literals"])
    ctx.set("size_literals_accepted", tot["lit_accepted"])
    ctx.set("size_literals_rejected", tot["lit_rejected"])
    ctx.set("plans_checked_for_budget", tot["budget_plans"])
    ctx.set("primitive_ops_checked_for_budget", tot["budget_ops"])
    ctx.set("rule", "mixed-spec call = (entry point, argument position carrying the odd spec, spec field); literal = element of the size grammar; "
            "distinct_nontrivial = mixed-spec calls + accepted literals")
    ctx.sample(dict(entry="stack", field="reserved_mem", position=1))
    ctx.sample(dict(literal="1.5kB", exact=1500))
    ctx.assumptions += ["any exception counts as rejecting a size literal (the statement does not fix its type)"]
