"""C09 - resume after a crash gives the same result and never trusts an incomplete array.

fault_enumeration: for each program one clean run records the ordered log of
store mutations; the store is then restored to EVERY prefix of that log (crash
between any two chunk/metadata writes, hence also every task boundary) and, in
thorough, to every subset of completed tasks of each op (what a parallel
executor can leave behind); compute(resume=True) is run on the same lazy
arrays with the controlled and the virtual executor.
"""
from __future__ import annotations

import itertools
from collections import Counter

import numpy as np

from ..cexec import ControlledExecutor
from ..common import HarnessError, Problem, perm
from ..programs import Builder
from ..runcase import make_spec
from ..traceinv import expected_chunk_keys
from ..tstore import World, is_chunk_key
from ..vexec import VirtualExecutor

PROPERTY = "C09"
LEVEL = "fault_enumeration"

A, B, Z = "a", "b", "z"
PROGS = {
    "chain": dict(terms=[["neg", ["T", ["neg", A]]]]),
    "diamond": dict(terms=[["sub", ["neg", A], ["mapblk", ["neg", A]]]]),
    "reduction-sum": dict(terms=[["sum0", ["sub", A, B]]]),
    "reduction-structured": dict(terms=[["mean1", A]]),
    "multi-output": dict(terms=[["sub", ["unstack0", ["neg", A]], ["unstack1", ["neg", A]]]]),
    "rechunk-multichunk": dict(terms=[["neg", ["rechunk", ["T", A]]]]),
    "zero-d": dict(terms=[["neg", ["sumall", ["neg", A]]]]),
    "store-new": dict(terms=[["neg", A]], store=True),
    "two-requested": dict(terms=[["neg", A], ["T", ["neg", A]]]),
    "concat": dict(terms=[["concat0", ["neg", A], ["slice1", B]]]),
    "cumsum": dict(terms=[["cumsum0", ["neg", Z]]]),
    # store into an existing, completely pre-filled target (its chunks are all present before anything ran)
    "store-existing": dict(terms=[["neg", A]], store="existing"),
    "store-existing-chain": dict(terms=[["neg", ["T", ["neg", A]]]], store="existing"),
    # every chunk of the intermediate is all fill value: 'all chunks present' must still mean 'fully computed'
    "all-fill-chunks": dict(terms=[["neg", ["T", ["sub", A, A]]]]),
}
QUICK = ["chain", "diamond", "reduction-sum", "reduction-structured", "multi-output", "rechunk-multichunk", "zero-d", "store-new", "all-fill-chunks", "store-existing"]


class Prepared:
    def __init__(self, name, optimize, seed):
        import cubed
        self.name = name
        d = PROGS[name]
        self.world = World()
        self.spec = make_spec(self.world)
        b = Builder(self.spec, self.world, seed)
        built = [b.build(t) for t in d["terms"]]
        self.arrs = [x for x, _ in built]
        self.exp = [v for _, v in built]
        self.store_target = None
        if d.get("store"):
            self.store_target = self.world.store("tgt")
            tgt = self.store_target
            if d["store"] == "existing":
                import zarr
                v = self.exp[0]
                tgt = zarr.create_array(self.store_target, shape=v.shape, dtype="f8", chunks=self.arrs[0].chunksize)
                tgt[...] = -999.0
            self.arrs = list(cubed.store(self.arrs, [tgt], compute=False))
        self.optimize = optimize
        self.initial = self.world.snapshot()
        self.world.mutations.clear()
        self.world.log.clear()
        w = self.world
        ex = ControlledExecutor(world=w, on_task=lambda n, i, ph: w.record("task-end", "-", f"{n}/{i}", n) if ph == "after" else None)
        self.clean = [np.asarray(x) for x in cubed.compute(*self.arrs, executor=ex, optimize_graph=optimize)]
        self.log = list(self.world.mutations)
        mut_seqs = [ev.seq for ev in self.world.log if ev.op in ("set", "delete")]
        if len(mut_seqs) != len(self.log):
            raise HarnessError("mutation log and event log disagree")
        self.mut_seqs = mut_seqs
        self.task_ends = [(ev.seq, ev.info) for ev in self.world.log if ev.op == "task-end"]  # (seq, op name)
        self.tasks_per_op = Counter(n for _, n in self.task_ends)
        self.clean_ops = [(o.name, o.executed) for o in ex.ops]
        # task boundaries in the mutation log: index after each task's last mutation
        self.final = self.world.snapshot()
        self.dag = ex.dag
        self._structured = {}
        self.has_structured = any(getattr(getattr(d.get("target"), "dtype", None), "fields", None) is not None
                                  for _, d in ex.dag.nodes(data=True) if d.get("target") is not None)
        # per-task mutation groups, in execution order
        self.task_muts = {}
        for ev in self.world.log:
            if ev.op in ("set", "delete") and ev.task is not None:
                self.task_muts.setdefault(ev.task, []).append((ev.store, ev.key))

    def finished_ops(self, k):
        """ops all of whose tasks had ended before the (k+1)-th mutation of the clean run"""
        limit = self.mut_seqs[k] if k < len(self.mut_seqs) else float("inf")
        ended = Counter(n for seq, n in self.task_ends if seq < limit)
        return {n for n, c in ended.items() if c == self.tasks_per_op[n]}

    def structured_in_plan(self, optimize):
        import cubed
        if optimize not in self._structured:
            dag = cubed.plan(*self.arrs, optimize_graph=optimize).dag
            self._structured[optimize] = any(getattr(getattr(d.get("target"), "dtype", None), "fields", None) is not None
                                             for _, d in dag.nodes(data=True) if d.get("target") is not None)
        return self._structured[optimize]

    def state_after(self, muts):
        snap = {k: dict(v) for k, v in self.initial.items()}
        for label, key, val in muts:
            if val is None:
                snap.setdefault(label, {}).pop(key, None)
            else:
                snap.setdefault(label, {})[key] = val
        return snap

    def crash_states(self, tier):
        """yield (description, list of mutations applied)"""
        for k in range(len(self.log) + 1):
            yield ("prefix", k), self.log[:k]
        if tier == "thorough":
            # every subset of completed tasks of one op, all earlier ops complete
            by_task = {}
            for ev_label, ev_key, ev_val in self.log:
                pass
            order = []
            muts_of = {}
            idx = 0
            # attribute mutations to tasks through the event log (same order as world.mutations)
            evs = [ev for ev in self.world_log_clean if ev.op in ("set", "delete")]
            for ev, m in zip(evs, self.log):
                muts_of.setdefault(ev.task, []).append(m)
                if ev.task not in order:
                    order.append(ev.task)
            ops = []
            for t in order:
                nm = t[0] if t is not None else None
                if not ops or ops[-1][0] != nm:
                    ops.append((nm, []))
                ops[-1][1].append(t)
            done = []
            for nm, tasks in ops:
                if nm is not None and 2 <= len(tasks) <= 5:
                    for r in range(1, len(tasks)):
                        for sub in itertools.combinations(tasks, r):
                            if list(sub) == tasks[: len(sub)]:
                                continue  # prefixes are already covered
                            muts = list(done)
                            for t in sub:
                                muts += muts_of[t]
                            yield ("subset", (nm, tuple(t[1] for t in sub))), muts
                for t in tasks:
                    done += muts_of[t]

    def complete_ops(self, dag):
        """ops all of whose outputs are completely present in the current store (by chunk keys)"""
        from cubed.storage.zarr import LazyZarrArray
        out = {}
        for n, d in dag.nodes(data=True):
            if d.get("pipeline") is None:
                continue
            outputs = [s for s in dag.successors(n) if dag.nodes[s].get("target") is not None]
            if not outputs:
                continue
            ok = True
            zero_d = False
            anykey = False
            user_target = False
            for o in outputs:
                t = dag.nodes[o]["target"]
                store = getattr(t, "store", None)
                path = getattr(t, "path", None)
                if not isinstance(t, LazyZarrArray):
                    # a user-supplied existing array: its completeness says nothing about this computation, so the
                    # skip rules are not applied to the op that writes it (it must simply end up with the right contents)
                    user_target = True
                    store = t.store.store if hasattr(t, "store") and hasattr(t.store, "store") else getattr(t, "store", None)
                    path = getattr(t, "path", "") or ""
                if len(t.shape) == 0:
                    zero_d = True
                label = getattr(store, "label", None)
                if label is None:
                    ok = False
                    continue
                fields = getattr(t.dtype, "fields", None)
                paths = [f"{path}/{f}" for f in fields] if fields else [path or ""]
                for pth in paths:
                    r = expected_chunk_keys(self.world.stores[label], pth)
                    if r is None or not r[0] <= set(self.world.stores[label]._store_dict):
                        ok = False
                    if r is not None and r[0] & set(self.world.stores[label]._store_dict):
                        anykey = True
            out[n] = (ok, zero_d or user_target, anykey and not ok)
        return out


def run_program(item):
    name, optimize, tier, seed = item
    import cubed
    p = Prepared(name, optimize, seed)
    p.world_log_clean = list(p.world.log)
    stats = Counter()
    probs = []
    seen = set()
    try:
        states = list(p.crash_states(tier))
        for desc, muts in states:
            snap = p.state_after(muts)
            for exname in ("controlled", "virtual", "virtual-parallel"):
                for resume_opt in ((optimize,) if tier == "quick" else (optimize, not optimize)):
                    p.world.restore(snap)
                    p.world.log.clear()
                    before_keys = {(label, k) for label, s in p.world.stores.items() for k in s._store_dict if is_chunk_key(k)}
                    ex = ControlledExecutor(world=p.world) if exname == "controlled" else VirtualExecutor(p.world, overlay=False, parallel=(exname == "virtual-parallel"))
                    stats["resumes"] += 1
                    err = None
                    try:
                        complete_before = None
                        got = cubed.compute(*p.arrs, executor=ex, optimize_graph=resume_opt, resume=True)
                    except Exception as e:
                        err = e
                    found = []
                    if err is not None:
                        # refusing up front is legal for plans whose storage cannot report completeness
                        # (structured intermediates); the designed refusal is NotImplementedError, but while the
                        # group does not exist yet zarr's own not-found error surfaces - still before anything ran
                        if not getattr(ex, "entered", False) and (isinstance(err, NotImplementedError) or p.structured_in_plan(resume_opt)):
                            stats["refused_up_front"] += 1
                        else:
                            found.append(("resume-failed", f"{type(err).__name__}: {str(err)[:160]} (executor entered={getattr(ex, 'entered', None)})"))
                    else:
                        stats["resumed"] += 1
                        for k, (g, c) in enumerate(zip(got, p.clean)):
                            if np.shape(g) != c.shape or not np.array_equal(np.asarray(g), c, equal_nan=True):
                                found.append(("wrong-result", f"requested[{k}] after resume differs from the clean run: {np.asarray(g).tolist()} vs {c.tolist()}"))
                                break
                        if p.store_target is not None:
                            import zarr
                            t = np.asarray(zarr.open_array(p.store_target.with_read_only(True), mode="r")[...])
                            if not np.array_equal(t, p.exp[0]):
                                found.append(("wrong-result", "store target after resume differs from NumPy"))
                        dels = [ev for ev in p.world.log if ev.op == "delete" and ev.info]
                        if dels:
                            found.append(("deleted-existing", f"resumed run deleted existing keys, e.g. {dels[0]}"))
                        after_keys = {(label, k) for label, s in p.world.stores.items() for k in s._store_dict}
                        lost = before_keys - after_keys
                        if lost:
                            found.append(("wiped-existing-chunks", f"chunks present before the resume are gone: {sorted(lost)[:3]}"))
                        # skip logic, judged only when the resumed plan is the crashed plan
                        if resume_opt == optimize and hasattr(ex, "dag"):
                            executed = {n for n, _ in (ex.steps if exname == "controlled" else ex.completed)}
                            p.world.restore(snap)
                            comp = p.complete_ops(ex.dag)
                            for n, (ok, zero_d, _partial) in comp.items():
                                if n == "create-arrays" or zero_d:
                                    continue
                                if ok and n in executed:
                                    found.append(("recomputed-complete-array", f"op {n}: all outputs were complete at the crash point but it ran again"))
                                if not ok and n not in executed:
                                    found.append(("skipped-incomplete-array", f"op {n}: an output was incomplete at the crash point but the op was skipped"))
                            if desc[0] == "prefix":
                                for n in p.finished_ops(desc[1]):
                                    if n != "create-arrays" and n in comp and not comp[n][1] and n in executed:
                                        found.append(("recomputed-complete-array", f"op {n}: every one of its tasks had finished before the crash point but it ran again on resume"))
                            if any(part for _, _, part in comp.values()):
                                stats["partial_states"] += 1
                    for k, t in found:
                        if (k, exname) not in seen:
                            seen.add((k, exname))
                            probs.append(dict(kind=k, text=t, crash=desc, executor=exname, resume_optimize=resume_opt))
        return dict(name=name, optimize=optimize, stats=stats, probs=probs, crash_states=len(states), log_len=len(p.log))
    finally:
        p.world.dispose()


def replay_case(case):
    r = run_program((case["program"], case["optimize"], case.get("tier", "thorough"), case.get("seed", 0)))
    return [Problem(dict(kind=p["kind"], program=case["program"], executor=p["executor"]), case, p["text"]) for p in r["probs"]]


def run(ctx):
    tier = ctx.tier
    names = QUICK if tier == "quick" else list(PROGS)
    items = perm([(n, o, tier, ctx.seed) for n in names for o in (True, False)], ctx.seed)
    res = ctx.pmap(run_program, items)
    tot = Counter()
    per = []
    cs = 0
    for r in res:
        tot.update(r["stats"])
        cs += r["crash_states"]
        per.append(dict(program=r["name"], optimize=r["optimize"], mutation_log_length=r["log_len"], crash_states=r["crash_states"],
                        resumes=r["stats"]["resumes"], refused_up_front=r["stats"]["refused_up_front"]))
        for p in r["probs"]:
            ctx.problem(dict(kind=p["kind"], program=r["name"], executor=p["executor"]),
                        dict(program=r["name"], optimize=r["optimize"], tier=tier, seed=ctx.seed, crash=p["crash"]),
                        f"{r['name']} optimize={r['optimize']} crash={p['crash']} resumed on {p['executor']} (optimize={p['resume_optimize']}): {p['text']}")
    ctx.set("evaluations", tot["resumes"])
    ctx.set("distinct_nontrivial", cs)
    ctx.set("crash_states", cs)
    ctx.set("resumes_completed", tot["resumed"])
    ctx.set("resumes_refused_up_front", tot["refused_up_front"])
    ctx.set("resumes_from_a_state_with_a_partially_written_op", tot["partial_states"])
    ctx.set("program_table", per)
    ctx.set("rule", "crash state = initial store + a prefix of the clean run's ordered mutation log (every prefix), plus (thorough) every non-prefix subset of "
            "completed tasks of one op; each state resumed with compute(resume=True) on the controlled and the virtual executor; "
            "distinct_nontrivial = distinct crash states")
    ctx.sample(dict(program=names[0], crash=["prefix", 7], meaning="store restored to the first 7 mutations (metadata and chunk writes) of the clean run"))
    ctx.assumptions += ["a crash loses nothing that was written and writes nothing partial within one key (a stored object is atomic)",
                        "the same lazy arrays are resumed (the store object is kept and its contents rewritten to the crash state)"]
