"""C17 - unsupported requests are refused up front with an explicit error;
accepted plans do not fail mid-run.

Every case of the C01 space that NumPy evaluates: the phase (BUILD / PLAN /
EXEC) and type of any exception.  BUILD/PLAN exceptions must be ValueError,
TypeError, NotImplementedError or IndexError (subclasses included); any
exception once the executor was entered (fault-free store) is a violation.
"""
from __future__ import annotations

from collections import Counter

from ..catalog import OPS, cases
from ..common import Problem
from ..runcase import run_case
from ..sweep import sweep

PROPERTY = "C17"
LEVEL = "exploration"
ALLOWED = {"ValueError", "TypeError", "NotImplementedError", "IndexError"}


def judge(phase, exc_type, exc_mro):
    if phase == "OK":
        return None
    if phase == "EXEC":
        return "failed-after-execution-started"
    if not (set(exc_mro or [exc_type]) & ALLOWED):
        return "incidental-exception"
    return None


def zero_size(case):
    return any(0 in i["shape"] for i in case.get("inputs", []))


def eval_case(case, seed, tier):
    cnt = Counter()
    probs = []
    for optimize in ((True,) if tier == "quick" else (True, False)):
        obs = run_case(case, seed=seed, optimize=optimize)
        cnt["evaluations"] += 1
        if not obs.ref_ok:
            cnt["numpy_refuses"] += 1
            break
        cnt["judged"] += 1
        if obs.phase != "OK":
            cnt[f"refused_{obs.phase}_{obs.exc_type}"] += 1
            cnt["nontrivial"] += 1  # a refusal or failure: the cases this property is about
        k = judge(obs.phase, obs.exc_type, obs.exc_mro)
        if k:
            ins = case["inputs"]
            probs.append((dict(op=case["op"], kind=k, phase=obs.phase, exc=obs.exc_type, fn=case["params"].get("fn"),
                               zero_size=zero_size(case), operand_chunks_differ=len({tuple(i["chunks"]) for i in ins}) > 1),
                          f"{case['op']} {case['params']} inputs={[(i['shape'], i['chunks'], i['dtype']) for i in ins]} optimize={optimize}: "
                          f"{obs.phase} {obs.exc_type}: {obs.exc_msg}"))
            break
    return cnt, probs


def replay_case(case):
    if case.get("op") == "program":
        from .c17_programs import eval_case as ev
        _, probs = ev(case, 0, "thorough")
    else:
        _, probs = eval_case(case, 0, "thorough")
    return [Problem(sig, case, d) for sig, d in probs]


def run(ctx):
    from ..programs import program_cases
    from . import c17_programs
    cs = list(cases(ctx.tier))
    total = sweep(ctx, __name__, cs)
    pc = list(program_cases(ctx.tier))
    total2 = sweep(ctx, c17_programs.__name__, pc, chunksize=20)
    refusals = {k: v for k, v in (total + total2).items() if k.startswith("refused_")}
    ctx.set("evaluations", total["evaluations"] + total2["evaluations"])
    ctx.set("judged_cases_numpy_accepts", total["judged"] + total2["judged"])
    ctx.set("distinct_nontrivial", total["nontrivial"] + total2["nontrivial"])
    ctx.set("refusals_by_phase_and_type", refusals)
    ctx.set("numpy_refuses_skipped", total["numpy_refuses"])
    ctx.set("catalogue_cases", len(cs))
    ctx.set("program_cases", len(pc))
    ctx.set("rule", "every catalogue case and program of the tier that NumPy evaluates; distinct_nontrivial = cases in which cubed raised "
            "(refusals at build/plan time, or failures), i.e. the cases whose phase/type the property constrains")
    ctx.assumptions += ["phase EXEC = exception after the executor's execute_dag was entered, on a fault-free in-memory store"]
