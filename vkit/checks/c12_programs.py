from __future__ import annotations

from collections import Counter

from ..cexec import write_monitor
from .c01_programs import run_program
from .c12 import metadata_problems


def eval_case(case, seed, tier):
    from ..tstore import World
    cnt = Counter()
    probs = []
    for optimize in ((True,) if tier == "quick" else (True, False)):
        world = World()
        try:
            with write_monitor(world) as writes:
                r = run_program(case, seed, optimize, world=world, keep=True)
            cnt["evaluations"] += 1
            if r["phase"] != "OK":
                cnt["declined_or_error"] += 1
                continue
            cnt["checked"] += 1
            cnt["nontrivial"] += 1
            cnt["block_writes_checked"] += len(writes)
            found = [("block-shape", f"task {w.task} wrote a block of shape {w.vshape} into a region of shape {w.region} of array {w.path}")
                     for w in writes if w.region is not None and tuple(w.region) != tuple(w.vshape)]
            found += metadata_problems(r["arrays"], r["got"], world, getattr(r["ex"], "dag", None))
            for kind, text in found[:1]:
                probs.append((dict(op="program", kind=kind), f"program {case['terms']} optimize={optimize}: {text}"))
            if found:
                break
        finally:
            world.dispose()
    return cnt, probs
