"""C06 - tasks are idempotent and independent of order, repetition and placement.

For each program (one per operation kind, fused and unfused) the finalized
plan is executed under every schedule of a finite family on the controlled
executor, each time from the same initial store:
  * every permutation of the tasks of one op (all ops in turn; ops with > 4
    tasks: reversal, rotation, adjacent swaps),
  * every single duplicate execution: task t re-run at every later position of
    the global schedule (also after downstream ops ran); pairs in thorough,
  * placements: in-process, per-task cloudpickle round trip of
    (function, input, config), and a fresh spawned interpreter running cubed's
    own unpickle_and_call on a filesystem store.
After every schedule every key of every store must hold exactly the bytes of
the reference run, repeated sets of a key must carry identical bytes, and the
result must equal NumPy.
"""
from __future__ import annotations

import hashlib
import itertools
import os
import shutil
import tempfile
from collections import Counter

import numpy as np

from ..catalog import OPS, inp
from ..cexec import ControlledExecutor
from ..common import HarnessError, Problem, perm
from ..runcase import as_tuple, compare, cubed_inputs, make_spec, np_inputs, reference
from ..tstore import World

PROPERTY = "C06"
LEVEL = "model_checking"


def C(op, inputs, **params):
    return dict(op=op, inputs=inputs, params=params)


A46 = inp((4, 6), (2, 3))
PROGRAMS = {
    "negative": C("negative_allgeom", [A46]),
    "subtract-diffchunks": C("subtract_allgeom", [A46, inp((4, 6), (3, 2))]),
    "sum-axis0": C("sum", [inp((6, 4), (2, 2))], axis=0, keepdims=False, split_every=2),
    "mean-axis1": C("mean", [A46], axis=1, keepdims=False, split_every=None),
    "var": C("var", [A46], axis=None, keepdims=False, split_every=2),
    "argmax": C("argmax", [A46], axis=1, keepdims=False, split_every=None),
    "cumsum": C("cumulative_sum", [inp((8,), (2,))], axis=0, include_initial=False),
    "cumsum-7blocks": C("cumulative_sum", [inp((7,), (1,))], axis=0, include_initial=False),
    "rechunk": C("rechunk", [inp((4, 4), (1, 4))], chunks=[4, 1]),
    "matmul": C("matmul", [inp((4, 3), (2, 3)), inp((3, 4), (3, 2))]),
    "concat": C("concat", [inp((3,), (2,)), inp((4,), (2,))], axis=0),
    "stack": C("stack", [A46, inp((4, 6), (2, 3))], axis=0),
    "reshape": C("reshape", [inp((4, 6), (2, 6))], shape=[24]),
    "getitem-step": C("getitem", [inp((7,), (2,))], key=[dict(slice=[None, None, 2])]),
    "getitem-negstep": C("getitem", [inp((5, 3), (2, 2))], key=[dict(slice=[None, None, -1]), dict(slice=[1, None, None])]),
    "roll": C("roll", [A46], shift=2, axis=1),
    "repeat": C("repeat", [inp((4,), (2,))], repeats=2, axis=0),
    "unstack": C("unstack", [inp((3, 4), (1, 2))], axis=0),
    "qr": C("qr", [inp((8, 2), (2, 2), kind="frac")]),
    "map_blocks-block_id": C("map_blocks", [A46], mode="block_id", _chunks=[2, 3]),
    "map_overlap": C("map_overlap", [inp((6,), (3,))], depth=1, boundary=0, _chunks=[3]),
    "pad": C("pad", [inp((5,), (2,))], pad_width=[[1, 2]], mode="constant"),
    "where": C("where", [inp((4,), (2,), "bool"), inp((4,), (1,)), inp((4,), (4,))]),
    "tril": C("tri", [inp((4, 4), (2, 2))], fn="tril", k=0),
    "random": C("random", [], shape=[4, 4], chunks=[2, 2], fn="random"),
    "random-integers": C("random", [], shape=[6], chunks=[2], fn="integers"),
    "from_zarr": C("negative_allgeom", [A46], src="from_zarr"),
    "nanmean": C("nanmean", [inp((4, 6), (2, 3), kind="nan")], axis=0, keepdims=False, split_every=None),
    "tensordot": C("tensordot", [inp((3, 4), (2, 2)), inp((4, 3), (2, 3))], axes=1),
    "broadcast_to": C("broadcast_to", [inp((3,), (2,))], shape=[2, 3]),
    "flip": C("flip", [A46], axis=0),
    "take": C("take", [inp((5,), (2,))], indices=[4, 0, 2], axis=0),
    "searchsorted": C("searchsorted", [inp((5,), (2,), kind="pos"), inp((3,), (2,), kind="pos")], side="left"),
    "diff": C("diff", [inp((6,), (2,))], axis=-1, n=1),
    "arange": C("creation", [], fn="arange", args=[7], chunks=[2]),
    # reduced axis in a single chunk: the task works directly on the block it read
    "nanmedian": C("nanmedian", [inp((4, 6), (4, 3), kind="nan")], axis=0, keepdims=False),
    "sort-like-inplace-candidates": C("unary_float", [inp((4, 6), (2, 3))], fn="abs"),
}
QUICK = ["negative", "subtract-diffchunks", "sum-axis0", "mean-axis1", "argmax", "cumsum", "rechunk", "matmul", "stack", "getitem-step",
         "unstack", "qr", "map_blocks-block_id", "random", "from_zarr", "concat", "nanmedian"]


def digest_store(world):
    return hash(frozenset((label, k, hash(bytes(v.to_bytes()) if hasattr(v, "to_bytes") else bytes(v)))
                          for label, s in world.stores.items() for k, v in s._store_dict.items()))


def snapshot_bytes(world):
    return {(label, k): (v.to_bytes() if hasattr(v, "to_bytes") else bytes(v)) for label, s in world.stores.items() for k, v in s._store_dict.items()}


class Prepared:
    """a program built once; re-executed under many schedules from the same initial store"""

    def __init__(self, name, optimize, seed):
        import cubed
        self.name = name
        self.case = PROGRAMS[name]
        self.optimize = optimize
        self.op = OPS[self.case["op"]]
        self.world = World()
        self.world.hash_sets = True
        self.spec = make_spec(self.world, allowed_mem=2000 if name == "rechunk" else 4_000_000)
        self.ns = np_inputs(self.case, seed)
        self.ns_pristine = [np.array(a, copy=True) for a in self.ns]
        self.exp = None if self.op.nondet else reference(self.case, self.ns)
        import random as pyrandom
        pyrandom.seed(1234 + seed)  # cubed.random draws its root seed from Python's random at build time
        xs = cubed_inputs(self.case, self.ns, self.spec, self.world)
        if getattr(self.op, "special", False):
            outs = (xs[0],)
        elif getattr(self.op, "needs_spec", False):
            outs = as_tuple(self.op.build(xs, self.case["params"], spec=self.spec))
        else:
            outs = as_tuple(self.op.build(xs, self.case["params"]))
        self.outs = outs
        self.initial = self.world.snapshot()
        self.set_hashes = {}
        # reference run
        ex = ControlledExecutor(world=self.world)
        self.ref_result = self.compute(ex)
        self.default = list(ex.steps)
        self.ops = [(o.name, o.mappable_len) for o in ex.ops]
        self.ref_bytes = snapshot_bytes(self.world)

    def compute(self, ex):
        import cubed
        self.world.restore(self.initial)
        self.world.log.clear()
        return as_tuple(cubed.compute(*self.outs, executor=ex, optimize_graph=self.optimize))

    def run_schedule(self, steps, placement="inproc", on_state=None):
        states = set()

        def hook(name, i, phase):
            if phase == "after" and on_state is not None:
                on_state(digest_store(self.world))

        ex = ControlledExecutor(world=self.world, schedule=lambda default: steps, placement=placement, on_task=hook if on_state else None)
        try:
            got = self.compute(ex)
        except Exception as e:
            return [("execution-error", f"{type(e).__name__}: {str(e)[:200]}")]
        return self.judge(got)

    def judge(self, got):
        probs = []
        cur = snapshot_bytes(self.world)
        if cur.keys() != self.ref_bytes.keys():
            extra = sorted(set(cur) - set(self.ref_bytes))[:3]
            missing = sorted(set(self.ref_bytes) - set(cur))[:3]
            probs.append(("store-keys-differ", f"store keys differ from the reference run: extra {extra} missing {missing}"))
        else:
            bad = [k for k in cur if cur[k] != self.ref_bytes[k]]
            if bad:
                probs.append(("store-content-differs", f"{len(bad)} stored objects differ from the reference run, e.g. {bad[:3]}"))
        # a task must not modify the in-memory input it was handed (it is shared by every other task and every re-execution)
        for k, (a, b) in enumerate(zip(self.ns, self.ns_pristine)):
            if not np.array_equal(a, b, equal_nan=True):
                probs.append(("input-modified", f"in-memory input {k} was modified by the computation"))
                self.ns[k][...] = b  # restore for the following schedules
        # repeated sets of a key must carry identical bytes
        seen = {}
        for ev in self.world.log:
            if ev.op == "sethash":
                k = (ev.store, ev.key)
                if k in seen and seen[k] != ev.info:
                    probs.append(("repeated-set-differs", f"key {k} was set again with different bytes"))
                    break
                seen[k] = ev.info
        if self.exp is not None:
            m = compare(self.op, self.ns, self.exp, got, self.case["params"])
            if m:
                probs.append(("wrong-value", m))
        else:
            for g, r in zip(got, self.ref_result):
                if not np.array_equal(g, r):
                    probs.append(("nondeterministic-random", "random array differs from the reference run of the same plan"))
            r = np.asarray(got[0])
            if r.size > 1 and len(np.unique(r)) < r.size // 2:
                probs.append(("random-streams-collide", "blocks of a random array repeat values"))
        return probs

    def close(self):
        self.world.dispose()


def perms_of(k):
    idx = list(range(k))
    if k <= 4:
        return [list(p) for p in itertools.permutations(idx)][1:]
    out = [idx[::-1], idx[1:] + idx[:1]]
    for i in range(k - 1):
        p = idx[:]
        p[i], p[i + 1] = p[i + 1], p[i]
        out.append(p)
    return out


def schedules(default, ops, tier):
    """yield (kind, steps)"""
    # permutations: one op deviating at a time
    pos = {}
    for n, (name, i) in enumerate(default):
        pos.setdefault(name, []).append(n)
    per_op = {}
    for name, k in ops:
        if k >= 2:
            per_op[name] = perms_of(k)
            for p in per_op[name]:
                steps = list(default)
                for slot, src in zip(pos[name], p):
                    steps[slot] = (name, src)
                yield "perm", steps
    if tier == "thorough":
        # all ops permuted simultaneously (reversal and rotation of every op at once, plus product for small plans)
        names = [n for n in per_op]
        choices = [([list(range(k))] + per_op[n]) for n, k in ops if n in per_op]
        total = 1
        for c in choices:
            total *= len(c)
        if total <= 600:
            for combo in itertools.product(*choices):
                steps = list(default)
                for name, p in zip(names, combo):
                    for slot, src in zip(pos[name], p):
                        steps[slot] = (name, src)
                yield "perm-all", steps
        else:
            for variant in (lambda idx: idx[::-1], lambda idx: idx[1:] + idx[:1]):
                steps = list(default)
                for name, k in ops:
                    if k >= 2:
                        for slot, src in zip(pos[name], variant(list(range(k)))):
                            steps[slot] = (name, src)
                yield "perm-all", steps
    # single duplicates: task at position i re-run at every later position j
    n = len(default)
    bounds = sorted({j for j in range(1, n) if default[j][0] != default[j - 1][0]} | {n})
    for i in range(n):
        # small plans: every later position; larger plans: immediately, and at every later op boundary
        # (end of its own op, after each downstream op) and at the very end
        js = range(i + 1, n + 1) if n <= 12 else sorted({i + 1} | {b for b in bounds if b > i})
        for j in js:
            yield "dup", default[:j] + [default[i]] + default[j:]
    if tier == "thorough" and n <= 14:
        for i in range(n):
            for i2 in range(i, n):
                steps = default + [default[i], default[i2]]
                yield "dup2", steps
                steps = default[: i2 + 1] + [default[i]] + default[i2 + 1:] + [default[i2]]
                yield "dup2", steps


def explore_program(item):
    name, optimize, tier, seed = item
    p = Prepared(name, optimize, seed)
    stats = Counter()
    states = set()
    probs = []
    try:
        base = p.judge(p.ref_result)
        if base:
            return dict(name=name, optimize=optimize, stats=stats, states=0, probs=[dict(kind="reference-" + base[0][0], text=base[0][1], steps=None, placement="inproc")], ntasks=len(p.default))
        seen_kinds = set()
        for kind, steps in schedules(p.default, p.ops, tier):
            for placement in (("inproc", "pickle") if kind in ("perm", "dup") else ("inproc",)):
                if placement == "pickle" and kind == "dup" and tier == "quick" and (len(steps) % 3):
                    continue  # quick: pickled placement on every third duplicate schedule (reported)
                stats["schedules"] += 1
                stats["schedules_" + kind] += 1
                stats["task_executions"] += len(steps)
                found = p.run_schedule(steps, placement, on_state=states.add if placement == "inproc" else None)
                for k, t in found:
                    if (k, kind, placement) not in seen_kinds:
                        seen_kinds.add((k, kind, placement))
                        probs.append(dict(kind=k, text=f"{t} [schedule kind={kind}]", steps=steps, placement=placement, sched=kind))
        return dict(name=name, optimize=optimize, stats=stats, states=len(states), probs=probs, ntasks=len(p.default), nops=len(p.ops),
                    opnames=[n for n, _ in p.ops])
    finally:
        p.close()


# ---- fresh interpreter placement -------------------------------------------------
def fresh_process_program(item):
    """Run the plan with every task executed by cubed's own unpickle_and_call inside a freshly
    spawned interpreter (filesystem store), in default order and with each task duplicated at the
    end; compare the directory tree with an in-process reference run."""
    name, seed = item
    import multiprocessing as mp

    import cloudpickle
    import cubed
    from cubed.runtime.executors.local import unpickle_and_call
    from cubed.runtime.pipeline import visit_nodes
    from cubed.runtime.types import DagExecutor

    case = PROGRAMS[name]
    op = OPS[case["op"]]
    ns = np_inputs(case, seed)
    exp = None if op.nondet else reference(case, ns)
    base = tempfile.mkdtemp(prefix="vkit-c06-")
    probs = []
    try:
        def build(workdir):
            import random as pyrandom
            pyrandom.seed(1234 + seed)
            spec = cubed.Spec(work_dir=workdir, allowed_mem=4_000_000, reserved_mem=0)
            w = World()
            try:
                xs = cubed_inputs(dict(case, params={k: v for k, v in case["params"].items() if k != "src"}), ns, spec, w)
            finally:
                w.dispose()
            if getattr(op, "special", False):
                return (xs[0],)
            if getattr(op, "needs_spec", False):
                return as_tuple(op.build(xs, case["params"], spec=spec))
            return as_tuple(op.build(xs, case["params"]))

        class Remote(DagExecutor):
            name = "fresh-process"

            def __init__(self, pool, dup):
                super().__init__()
                self.pool, self.dup = pool, dup

            def execute_dag(self, dag, callbacks=None, spec=None, compute_id=None, **kw):
                done = []
                for nm, node in visit_nodes(dag):
                    pl = node["pipeline"]
                    for m in pl.mappable:
                        args = (cloudpickle.dumps(pl.function), cloudpickle.dumps(m))
                        kwargs = dict(config=cloudpickle.dumps(pl.config))
                        self.pool.apply(unpickle_and_call, args, kwargs)
                        done.append((args, kwargs))
                if self.dup:
                    for args, kwargs in done:
                        self.pool.apply(unpickle_and_call, args, kwargs)

        def tree(d):
            out = {}
            for root, _, files in os.walk(d):
                for f in files:
                    pth = os.path.join(root, f)
                    out[os.path.relpath(pth, d)] = open(pth, "rb").read()
            return out

        import re
        def canon_tree(t):
            # gensym numbers differ between the builds: rank them
            nums = sorted({int(m) for k in t for m in re.findall(r"(?:array|op)-(\d+)", k)})
            rank = {n: i for i, n in enumerate(nums)}
            return {re.sub(r"(array|op)-(\d+)", lambda m: f"{m.group(1)}#{rank[int(m.group(2))]}", re.sub(r"^[^/]+/", "", k, count=1)): v for k, v in t.items()}

        from cubed.runtime.executors.local import SingleThreadedExecutor
        d0 = os.path.join(base, "ref")
        os.makedirs(d0)
        ref = cubed.compute(*build(d0), executor=SingleThreadedExecutor())
        t0 = canon_tree(tree(d0))
        ctx = mp.get_context("spawn")
        with ctx.Pool(1) as pool:
            for dup in (False, True):
                d1 = os.path.join(base, f"run{int(dup)}")
                os.makedirs(d1)
                got = cubed.compute(*build(d1), executor=Remote(pool, dup))
                t1 = canon_tree(tree(d1))
                if t1.keys() != t0.keys():
                    probs.append(("store-keys-differ", f"fresh-process run (dup={dup}) left different files: {sorted(set(t1) ^ set(t0))[:4]}"))
                elif any(t1[k] != t0[k] for k in t1 if not k.endswith("zarr.json")):
                    bad = [k for k in t1 if t1[k] != t0[k] and not k.endswith("zarr.json")]
                    probs.append(("store-content-differs", f"fresh-process run (dup={dup}): {len(bad)} chunk files differ from the in-process run, e.g. {bad[:3]}"))
                if exp is not None:
                    m = compare(op, ns, exp, as_tuple(got), case["params"])
                    if m:
                        probs.append(("wrong-value", f"fresh-process run (dup={dup}): {m}"))
                else:
                    if not all(np.array_equal(g, r) for g, r in zip(as_tuple(got), as_tuple(ref))):
                        probs.append(("nondeterministic-random", f"fresh-process run (dup={dup}) generated different random blocks than the in-process run"))
    except Exception as e:
        probs.append(("execution-error", f"fresh-process placement failed: {type(e).__name__}: {str(e)[:200]}"))
    finally:
        shutil.rmtree(base, ignore_errors=True)
    return name, probs


def replay_case(case):
    if case.get("fresh"):
        _, probs = fresh_process_program((case["program"], case.get("seed", 0)))
        return [Problem(dict(kind=k, program=case["program"], placement="fresh-process"), case, t) for k, t in probs]
    p = Prepared(case["program"], case["optimize"], case.get("seed", 0))
    try:
        steps = [tuple(s) for s in case["steps"]] if case["steps"] else p.default
        # op names are gensyms: map by rank
        names = sorted({n for n, _ in p.default}, key=lambda n: [x[0] for x in p.ops].index(n))
        rec = case.get("op_names") or names
        m = dict(zip(rec, names))
        steps = [(m.get(n, n), i) for n, i in steps]
        probs = p.run_schedule(steps, case.get("placement", "inproc"))
        return [Problem(dict(kind=k, program=case["program"], placement=case.get("placement", "inproc")), case, t) for k, t in probs]
    finally:
        p.close()


def run(ctx):
    tier = ctx.tier
    names = QUICK if tier == "quick" else list(PROGRAMS)
    items = perm([(n, o, tier, ctx.seed) for n in names for o in (True, False)], ctx.seed)
    res = ctx.pmap(explore_program, items)
    tot = Counter()
    states = 0
    per = []
    for r in res:
        tot.update(r["stats"])
        states += r["states"]
        per.append(dict(program=r["name"], optimize=r["optimize"], tasks=r["ntasks"], schedules=r["stats"]["schedules"], states=r["states"]))
        for p in r["probs"]:
            ctx.problem(dict(kind=p["kind"], program=r["name"], placement=p["placement"]),
                        dict(program=r["name"], optimize=r["optimize"], steps=p["steps"], placement=p["placement"], seed=ctx.seed,
                             op_names=r.get("opnames")),
                        f"{r['name']} optimize={r['optimize']} placement={p['placement']}: {p['text']}")
    fresh = (["negative", "sum-axis0", "rechunk", "unstack", "random", "map_blocks-block_id"] if tier == "quick" else list(PROGRAMS))
    nfresh = 0
    for name, probs in ctx.pmap(fresh_process_program, [(n, ctx.seed) for n in fresh]):
        nfresh += 1
        for k, t in probs:
            ctx.problem(dict(kind=k, program=name, placement="fresh-process"), dict(program=name, fresh=True, seed=ctx.seed), f"{name}: {t}")
    ctx.set("states", max(states, 1))
    ctx.set("transitions", tot["task_executions"])
    ctx.set("traces_validated_against_impl", tot["schedules"] + 2 * nfresh)
    ctx.set("schedules", tot["schedules"])
    ctx.set("schedules_by_kind", {k[len("schedules_"):]: v for k, v in tot.items() if k.startswith("schedules_")})
    ctx.set("fresh_process_programs", nfresh)
    ctx.set("program_table", per)
    ctx.set("evaluations", tot["schedules"] + 2 * nfresh)
    ctx.set("distinct_nontrivial", tot["schedules"])
    ctx.set("rule", "states = distinct store contents reached after any task execution; transitions = task executions; a schedule is a "
            "sequence of (op, task index) steps: permutations of one op's tasks, simultaneous permutations, single and double duplicates at later positions")
    ctx.sample(dict(program="sum-axis0", schedule=[["op-a", 1], ["op-a", 0], ["op-b", 0], ["op-a", 1]], meaning="task 1 before task 0, then task 1 duplicated after the downstream op"))
    ctx.assumptions += ["tasks are executed one at a time (schedule = total order); concurrency of two tasks on one chunk is excluded by C05",
                        "in-process cloudpickle round trip returns the same in-memory store object (closures/config are what is tested); the fresh interpreter uses a filesystem store"]
