"""C14 - rechunk plans are well-formed, aligned and memory-bounded for every geometry.

Exhaustive sweep of the planner functions (multistage_rechunking_plan,
multistage_regular_rechunking_plan) and of cubed.core.rechunk.rechunk_plan over
every (shape, source chunks, target chunks, itemsize, min_mem, max_mem) of the
tier, plus end-to-end x.rechunk(c).compute() on a sub-lattice with the
single-writer trace invariant.
"""
from __future__ import annotations

import itertools
import signal
import time
import warnings
from collections import Counter
from math import prod

from ..common import HarnessError, Problem, perm

PROPERTY = "C14"
LEVEL = "exploration"
EXPLICIT = (ValueError, NotImplementedError)


CPU_BUDGET_S = 20.0


class Timeout(Exception):
    pass


def _alarm(signum, frame):
    raise Timeout()


def plan_problems(planf_name, shape, sc, tc, itemsize, min_mem, max_mem):
    """returns (outcome, [problem texts])"""
    from cubed.core.rechunk import multistage_regular_rechunking_plan
    from cubed.vendor.rechunker.algorithm import multistage_rechunking_plan

    planf = multistage_regular_rechunking_plan if planf_name == "regular" else multistage_rechunking_plan
    # CPU-time budget (ITIMER_VIRTUAL), not wall-clock: a loaded machine must not turn a slow
    # call into a verdict; a call normally takes milliseconds
    signal.signal(signal.SIGVTALRM, _alarm)
    signal.setitimer(signal.ITIMER_VIRTUAL, CPU_BUDGET_S)
    try:
        with warnings.catch_warnings():
            warnings.simplefilter("ignore")
            stages = planf(shape=shape, source_chunks=sc, target_chunks=tc, itemsize=itemsize, min_mem=min_mem, max_mem=max_mem)
    except EXPLICIT:
        return "rejected", []
    except Timeout:
        return "timeout", [f"planner did not terminate within {CPU_BUDGET_S:.0f} s of CPU time"]
    except BaseException as e:  # noqa
        return "crash", [f"planner raised {type(e).__name__}: {str(e)[:100]}"]
    finally:
        signal.setitimer(signal.ITIMER_VIRTUAL, 0)
    probs = []
    if not stages:
        return "ok", ["empty stage list"]
    if len(stages) > 1:
        plan_problems.multistage += 1
    stages = [tuple(tuple(int(v) for v in c) for c in st) for st in stages]
    # (reads need not be whole source chunks: consolidation may straddle them; only written chunks must align)
    wl = stages[-1][2]
    for n, w, t in zip(shape, wl, tc):
        if not (w % t == 0 or w >= n):
            probs.append(f"last stage writes {wl}, which is not a whole number of target chunks {tc}")
            break
    for i, (r, m, w) in enumerate(stages):
        for nm, c in (("read", r), ("intermediate", m), ("write", w)):
            if len(c) != len(shape):
                probs.append(f"stage {i} {nm} chunks {c} have wrong rank")
                continue
            if itemsize * prod(c) > max_mem:
                probs.append(f"stage {i} {nm} chunk {c} needs {itemsize * prod(c)} bytes > max_mem {max_mem}")
            if any(x < 1 for x in c):
                probs.append(f"stage {i} {nm} chunk {c} has a non-positive size")
            if any(x > max(n, 1) for x, n in zip(c, shape)):
                probs.append(f"stage {i} {nm} chunk {c} exceeds the shape {shape}")
        if i + 1 < len(stages) and stages[i + 1][0] != w:
            probs.append(f"stage {i + 1} reads {stages[i + 1][0]} but stage {i} wrote {w}")
        if planf_name == "regular":
            # the copy of this stage writes an array chunked `m`: every copy region must be whole stored chunks
            for n, a, b in zip(shape, r, m):
                if not (a % b == 0 or a >= n):
                    probs.append(f"stage {i} copies regions of {r} into an array chunked {m}: regions are not whole chunks")
                    break
            if i == len(stages) - 1 and r != w:
                for n, a, b in zip(shape, w, tc):
                    if not (a % b == 0 or a >= n):
                        probs.append(f"last copy {w} does not consist of whole target chunks {tc}")
                        break
    return "ok", probs


plan_problems.multistage = 0


def mem_ladder(itemsize, shape, sc, tc):
    base = itemsize * max(prod(sc), prod(tc))
    whole = itemsize * prod(shape)
    return sorted({max(base - 1, 1), base, base + itemsize, base * 2, base * 5, max(whole, base), whole * 4})


def min_ladder(max_mem):
    return sorted({1, max(max_mem // 20, 1), max(max_mem // 2, 1), max_mem, max_mem + 1})


def geometries(tier):
    """yield lists of (shape, sc, tc) grouped for sharding"""
    n1 = 24 if tier == "quick" else 40
    for n in range(1, n1 + 1):
        yield [((n,), (s,), (t,)) for s in range(1, n + 1) for t in range(1, n + 1)]
    d2 = 5 if tier == "quick" else 8
    for shape in itertools.product(range(1, d2 + 1), repeat=2):
        yield [(shape, sc, tc) for sc in itertools.product(*[range(1, k + 1) for k in shape]) for tc in itertools.product(*[range(1, k + 1) for k in shape])]
    # transpose-like geometries: the cases that need several stages
    big = []
    for n in range(2, 17 if tier == "quick" else 33):
        for a in (1, 2, 3):
            for b in (1, 2, 3):
                if a <= n and b <= n:
                    big += [((n, n), (a, n), (n, b)), ((n, n), (n, a), (b, n)), ((n, n + 1), (a, n + 1), (n, b))]
    yield big
    # mixed geometries: one axis shrinks from a partial read chunk while the other grows (multi-stage plans whose
    # first copy must align with the FIRST intermediate stage, not with the final write chunks)
    mixed = []
    Ns = (12, 20) if tier == "quick" else (12, 20, 30, 42)
    for N in Ns:
        for M in (6, 12):
            for s0 in (5, 6, 7, 9, 10):
                for t0 in (1, 2, 3, 4):
                    for s1 in (1, 2):
                        for t1 in (M, M // 2):
                            if s0 < N and t0 < s0:
                                mixed.append(((N, M), (s0, s1), (t0, t1)))
                                mixed.append(((M, N), (s1, s0), (t1, t0)))
    for i in range(0, len(mixed), 200):
        yield mixed[i:i + 200]
    d3 = 3 if tier == "quick" else 4
    for shape in itertools.product(range(1, d3 + 1), repeat=3):
        yield [(shape, sc, tc) for sc in itertools.product(*[range(1, k + 1) for k in shape]) for tc in itertools.product(*[range(1, k + 1) for k in shape])]


def sweep_group(item):
    group, tier = item
    cnt = Counter()
    probs = []
    seen = set()
    isz = (1, 8) if tier == "quick" else (1, 4, 8)
    for shape, sc, tc in group:
        for itemsize in isz:
            for max_mem in mem_ladder(itemsize, shape, sc, tc):
                for min_mem in min_ladder(max_mem):
                    for planf in ("irregular", "regular"):
                        out, ps = plan_problems(planf, shape, sc, tc, itemsize, min_mem, max_mem)
                        cnt["calls"] += 1
                        cnt[out] += 1
                        if out == "ok":
                            if sc != tc:
                                cnt["nontrivial"] += 1
                        for t in ps:
                            kind = "crash" if out == "crash" else ("timeout" if out == "timeout" else t.split(" ")[0] + "-" + (t.split(" ")[2] if len(t.split(" ")) > 2 else ""))
                            kind = {"crash": "planner-crash", "timeout": "planner-timeout"}.get(kind, "malformed-plan")
                            key = (kind, planf, t.split(":")[0][:40])
                            if key not in seen:
                                seen.add(key)
                                probs.append((dict(kind=kind, planner=planf), dict(part="planner", planf=planf, shape=shape, sc=sc, tc=tc, itemsize=itemsize, min_mem=min_mem, max_mem=max_mem), t))
    cnt["multistage_plans"] = plan_problems.multistage
    plan_problems.multistage = 0
    return cnt, probs


# ---------------------------------------------------------------- rechunk_plan level + end to end
def e2e_group(item):
    shapes, tier = item
    import cubed
    import cubed.array_api as xp
    import numpy as np
    from cubed.core.rechunk import rechunk_plan

    from ..cexec import ControlledExecutor
    from ..scope import mkdata
    from ..traceinv import single_writer
    from ..tstore import World

    cnt = Counter()
    probs = []
    seen = set()

    def add(kind, case, text):
        if kind not in seen:
            seen.add(kind)
            probs.append((dict(kind=kind, planner="rechunk_plan"), case, text))

    for shape in shapes:
        V = mkdata(shape, "float64")
        for sc in itertools.product(*[range(1, k + 1) for k in shape]):
            for tc in itertools.product(*[range(1, k + 1) for k in shape]):
                if sc == tc:
                    continue
                for mem, minm in (("ample", None), ("tight", None), ("ample", "chunk"), ("tight", "chunk"), ("tight-reserved", None), ("tight-reserved", "chunk")):
                    for irr in (True, False):
                        case = dict(part="e2e", shape=shape, sc=sc, tc=tc, mem=mem, min_mem=minm, allow_irregular=irr)
                        cnt["e2e"] += 1
                        w = World()
                        try:
                            allowed, reserved = budget(mem, sc, tc)
                            spec = cubed.Spec(intermediate_store=w.store("inter"), allowed_mem=allowed, reserved_mem=reserved)
                            x = xp.asarray(V, chunks=sc, spec=spec)
                            try:
                                with warnings.catch_warnings():
                                    warnings.simplefilter("ignore")
                                    mm = None if minm is None else 8 * max(prod(sc), prod(tc))
                                    rp = rechunk_plan(x, tc, min_mem=mm, allow_irregular=irr)
                                    y = x.rechunk(tc, min_mem=mm, allow_irregular=irr)
                            except EXPLICIT:
                                cnt["e2e_rejected"] += 1
                                continue
                            except Exception as e:
                                add("planner-crash", case, f"rechunk raised {type(e).__name__}: {str(e)[:100]} for {case}")
                                continue
                            ops = rp.copy_ops
                            if ops:
                                if tuple(ops[0].source_chunks) != tuple(sc):
                                    add("malformed-plan", case, f"first copy op reads source chunks {ops[0].source_chunks}, array has {sc}: {case}")
                                if tuple(ops[-1].target_chunks) != tuple(tc):
                                    add("malformed-plan", case, f"last copy op writes {ops[-1].target_chunks}, requested {tc}: {case}")
                                for a, b in zip(ops, ops[1:]):
                                    if tuple(b.source_chunks) != tuple(a.target_chunks):
                                        add("malformed-plan", case, f"copy op reads {b.source_chunks} but the previous one wrote {a.target_chunks}: {case}")
                                for o in ops:
                                    if 8 * prod(o.copy_chunks) > allowed:
                                        add("malformed-plan", case, f"copy chunk {o.copy_chunks} exceeds allowed_mem {allowed}: {case}")
                                    if not irr:
                                        for n, c, t in zip(shape, o.copy_chunks, o.target_chunks):
                                            if not (c % t == 0 or c >= n):
                                                add("malformed-plan", case, f"copy regions {o.copy_chunks} are not whole chunks of the array they write {o.target_chunks}: {case}")
                                                break
                                if len(ops) >= 2:
                                    cnt["e2e_multistage"] += 1
                            # a rechunk the planner accepted must be admissible: no op may be projected above allowed_mem
                            try:
                                over = [(n, d["primitive_op"].projected_mem) for n, d in cubed.plan(y).dag.nodes(data=True)
                                        if "primitive_op" in d and d["primitive_op"].projected_mem > allowed]
                            except Exception:
                                over = []
                            if over:
                                add("plan-exceeds-budget", case, f"the planner accepted the request but its copy ops are projected above allowed_mem={allowed} (reserved_mem={reserved}): {over[:2]}: {case}")
                                continue
                            exp_chunks = tuple(tuple(min(t, n - o) for o in range(0, n, t)) for n, t in zip(shape, tc))
                            if tuple(y.chunks) != exp_chunks:
                                add("wrong-chunks", case, f"rechunk result declares chunks {y.chunks}, requested {exp_chunks}: {case}")
                            ex = ControlledExecutor(world=w)
                            try:
                                got = y.compute(executor=ex)
                            except Exception as e:
                                add("execution-error", case, f"rechunk failed while running: {type(e).__name__}: {str(e)[:100]}: {case}")
                                continue
                            if not np.array_equal(got, V):
                                add("wrong-values", case, f"rechunk changed element values: {case}")
                            for kind, text in single_writer(w)[:1]:
                                add("shared-chunk-" + kind, case, f"{text}: {case}")
                            cnt["e2e_ok"] += 1
                        finally:
                            w.dispose()
    return cnt, probs


def request_forms(shape, sc, tc):
    """(label, request, effective per-axis chunk length) - every way of writing a rechunk request the API accepts"""
    nd = len(shape)
    out = [("list", list(tc), tc),
           ("dict-all", {i: tc[i] for i in range(nd)}, tc),
           ("dict-negative-keys", {i - nd: tc[i] for i in range(nd)}, tc),
           ("dict-last-negative", {-1: tc[-1]}, tuple(sc[:-1]) + (tc[-1],)),
           ("dict-first", {0: tc[0]}, (tc[0],) + tuple(sc[1:])),
           ("dict-none-value", {0: None, -1: tc[-1]} if nd > 1 else {0: None}, ((sc[0],) + tuple(sc[1:-1]) + (tc[-1],)) if nd > 1 else (sc[0],)),
           ("tuple-none", (None,) + tuple(tc[1:]), (sc[0],) + tuple(tc[1:])),
           ("tuple-minus-one", (-1,) + tuple(tc[1:]), (shape[0],) + tuple(tc[1:])),
           ("dict-minus-one-value", {-1: -1}, tuple(sc[:-1]) + (shape[-1],))]
    if nd > 1:
        out.append(("dict-mixed-keys", {0: tc[0], -1: tc[-1]}, (tc[0],) + tuple(sc[1:-1]) + (tc[-1],)))
    # explicit per-axis block tuples: the regular grid written out, and the same blocks in reverse order (an irregular
    # grid whenever the last block is shorter: that request must be refused or honoured exactly, never approximated)
    blocks = tuple(tuple(min(t, n - o) for o in range(0, n, t)) for n, t in zip(shape, tc))
    out.append(("explicit-blocks", blocks, tc))
    rev = tuple(b[::-1] for b in blocks)
    if rev != blocks:
        out.append(("explicit-blocks-reversed", rev, rev))
    return out


def forms_group(item):
    """rechunk requests written as dicts (positive, negative, partial keys), lists, with None and -1 entries"""
    shapes, tier = item
    import cubed
    import cubed.array_api as xp
    import numpy as np

    from ..cexec import ControlledExecutor
    from ..scope import mkdata
    from ..tstore import World

    cnt = Counter()
    probs = []
    seen = set()
    for shape in shapes:
        V = mkdata(shape, "float64")
        for sc in itertools.product(*[range(1, k + 1) for k in shape]):
            for tc in itertools.product(*[range(1, k + 1) for k in shape]):
                for label, req, eff in request_forms(shape, sc, tc):
                    case = dict(part="forms", shape=shape, sc=sc, tc=tc, form=label)
                    cnt["request_forms"] += 1
                    w = World()
                    try:
                        spec = cubed.Spec(intermediate_store=w.store("inter"), allowed_mem=4_000_000, reserved_mem=0)
                        x = xp.asarray(V, chunks=sc, spec=spec)
                        try:
                            with warnings.catch_warnings():
                                warnings.simplefilter("ignore")
                                y = x.rechunk(req)
                        except EXPLICIT:
                            cnt["request_forms_rejected"] += 1
                            continue
                        except Exception as e:
                            text, kind = f"rechunk({req!r}) raised {type(e).__name__}: {str(e)[:100]}", "planner-crash"
                        else:
                            if label == "explicit-blocks-reversed":
                                exp_chunks = tuple(tuple(b) for b in eff)
                            else:
                                exp_chunks = tuple(tuple(min(t, n - o) for o in range(0, n, t)) for n, t in zip(shape, eff))
                            text = kind = None
                            if tuple(y.chunks) != exp_chunks:
                                kind, text = "wrong-chunks", f"rechunk({req!r}) of an array chunked {sc} declares chunks {y.chunks}, the request means {exp_chunks}"
                            else:
                                try:
                                    got = y.compute(executor=ControlledExecutor(world=w))
                                    if not np.array_equal(got, V):
                                        kind, text = "wrong-values", f"rechunk({req!r}) changed element values"
                                except Exception as e:
                                    kind, text = "execution-error", f"rechunk({req!r}) failed while running: {type(e).__name__}: {str(e)[:100]}"
                                cnt["request_forms_ok"] += 1
                        if kind and (kind, label) not in seen:
                            seen.add((kind, label))
                            probs.append((dict(kind=kind, planner="rechunk", form=label), case, f"{text}: {case}"))
                    finally:
                        w.dispose()
    return cnt, probs


def plan_sig(rp):
    return tuple((tuple(o.source_chunks), tuple(o.copy_chunks), tuple(o.target_chunks)) for o in rp.copy_ops)


def budget(mem, sc, tc):
    # "tightest": five chunks' worth - the level at which the regular and the irregular planner start to plan differently
    allowed = 4_000_000 if mem == "ample" else 8 * max(prod(sc), prod(tc)) * (5 if mem == "tightest" else 6) + 100
    reserved = 0
    if mem == "tight-reserved":
        # half of the budget is reserved for non-data memory: the planner must work with what is left
        reserved = allowed
        allowed = 2 * allowed
    return allowed, reserved


def history_group(item):
    """The answer to a rechunk request must not depend on earlier requests made on the same array.

    For every (shape, source chunks, budget): every request (target chunks x min_mem x allow_irregular) is
    answered once on a fresh array (reference), then all of them are issued on ONE array - forwards through
    rechunk_plan, backwards through x.rechunk - and each answer is compared with the reference."""
    shapes, tier = item
    import cubed
    import cubed.array_api as xp
    from cubed.core.rechunk import rechunk_plan

    from ..scope import mkdata

    cnt = Counter()
    probs = []
    seen = set()

    def answer(x, call, tc, mm, irr):
        try:
            with warnings.catch_warnings():
                warnings.simplefilter("ignore")
                if call == "plan":
                    return plan_sig(rechunk_plan(x, tc, min_mem=mm, allow_irregular=irr))
                y = x.rechunk(tc, min_mem=mm, allow_irregular=irr)
                return (tuple(y.chunks), dag_sig(y))
        except EXPLICIT as e:
            return ("rejected", type(e).__name__)
        except Exception as e:
            return ("crash", type(e).__name__, str(e)[:80])

    for shape in shapes:
        V = mkdata(shape, "float64")
        tcs = list(itertools.product(*[range(1, k + 1) for k in shape]))
        for sc in tcs:
            for level in ("ample", "five-source-chunks", "five-largest"):
                allowed = {"ample": 4_000_000, "five-source-chunks": 8 * prod(sc) * 5 + 100, "five-largest": 8 * prod(shape) * 5 // 2 + 100}[level]
                spec = cubed.Spec(allowed_mem=allowed, reserved_mem=0)
                reqs = [(tc, mm, irr) for tc in tcs if tc != sc for mm in (None, 8 * prod(sc)) for irr in (True, False)]
                ref = {}
                for call in ("plan", "rechunk"):
                    for r in reqs:
                        ref[(call,) + r] = answer(xp.asarray(V, chunks=sc, spec=spec), call, *r)
                modes_differ = sum(1 for (tc, mm, irr) in reqs if irr and ref[("plan", tc, mm, True)] != ref[("plan", tc, mm, False)])
                cnt["history_requests_where_modes_plan_differently"] += modes_differ
                x = xp.asarray(V, chunks=sc, spec=spec)
                step = 0
                for call, order in (("plan", reqs), ("rechunk", reqs[::-1]), ("plan", reqs[::-1])):
                    for r in order:
                        step += 1
                        cnt["history_calls"] += 1
                        got = answer(x, call, *r)
                        want = ref[(call,) + r]
                        if got != want and "history" not in seen:
                            seen.add("history")
                            case = dict(part="history", shape=shape, sc=sc, level=level)
                            probs.append((dict(kind="history-dependent-plan", planner="rechunk_plan" if call == "plan" else "rechunk"), case,
                                          f"{call} of {r[0]} (min_mem={r[1]}, allow_irregular={r[2]}) as call {step} on one array chunked {sc} (allowed_mem={allowed}) "
                                          f"answered {got}; the same request on a fresh array gets {want}: {case}"))
    return cnt, probs


def dag_sig(y):
    """name-free structure of the plan an array was built from: arrays (shape, chunks) and ops (kind, tasks, projected memory) in topological order"""
    import cubed
    import networkx as nx
    dag = cubed.plan(y, optimize_graph=False).dag
    out = []
    for n in nx.lexicographical_topological_sort(dag, key=lambda k: (len(k), k)):
        d = dag.nodes[n]
        if d.get("type") == "array":
            t = d.get("target")
            ch = getattr(t, "chunks", None)
            out.append(("array", tuple(getattr(t, "shape", ()) or ()), tuple(ch) if ch is not None else None))
        elif "primitive_op" in d:
            po = d["primitive_op"]
            out.append(("op", d.get("op_name"), po.num_tasks, po.projected_mem))
    return tuple(out)


def replay_case(case):
    t = lambda x: tuple(x) if isinstance(x, list) else x
    if case["part"] == "planner":
        out, ps = plan_problems(case["planf"], t(case["shape"]), t(case["sc"]), t(case["tc"]), case["itemsize"], case["min_mem"], case["max_mem"])
        return [Problem(dict(kind="replayed", planner=case["planf"]), case, x) for x in ps]
    if case["part"] == "history":
        cnt, probs = history_group(([t(case["shape"])], "thorough"))
        return [Problem(sig, c, d) for sig, c, d in probs]
    if case["part"] == "forms":
        cnt, probs = forms_group(([t(case["shape"])], "thorough"))
        return [Problem(sig, c, d) for sig, c, d in probs if c["form"] == case["form"]]
    cnt, probs = e2e_group(([t(case["shape"])], "thorough"))
    return [Problem(sig, c, d) for sig, c, d in probs if tuple(c["sc"]) == t(case["sc"]) and tuple(c["tc"]) == t(case["tc"])]


def run(ctx):
    tier = ctx.tier
    groups = list(geometries(tier))
    # split big groups for balance
    items = []
    for g in groups:
        for i in range(0, len(g), 400):
            items.append((g[i:i + 400], tier))
    tot = Counter()
    for cnt, probs in ctx.pmap(sweep_group, perm(items, ctx.seed)):
        tot.update(cnt)
        for sig, case, text in probs:
            ctx.problem(sig, case, f"{text} [{case}]")
    if tier == "quick":
        shapes = [(n,) for n in range(1, 9)] + [s for s in itertools.product(range(1, 4), repeat=2)]
    else:
        shapes = [(n,) for n in range(1, 13)] + [s for s in itertools.product(range(1, 5), repeat=2)]
    for cnt, probs in ctx.pmap(e2e_group, [([s], tier) for s in shapes]):
        tot.update(cnt)
        for sig, case, text in probs:
            ctx.problem(sig, case, text)
    ctx.set("evaluations", tot["calls"] + tot["e2e"])
    ctx.set("distinct_nontrivial", tot["nontrivial"] + tot["e2e_ok"])
    ctx.set("planner_calls", tot["calls"])
    ctx.set("planner_plans_checked", tot["ok"])
    fshapes = [(n,) for n in range(1, 7)] + [s for s in itertools.product(range(1, 4), repeat=2)] + ([(2, 2, 3)] if tier == "quick" else [(2, 3, 3), (3, 2, 4)])
    for cnt, probs in ctx.pmap(forms_group, [([s], tier) for s in fshapes]):
        tot.update(cnt)
        for sig, case, text in probs:
            ctx.problem(sig, case, text)
    hshapes = [(n,) for n in range(2, 11 if tier == "quick" else 15)] + [s for s in itertools.product(range(1, 4 if tier == "quick" else 5), repeat=2) if prod(s) > 1]
    for cnt, probs in ctx.pmap(history_group, [([s], tier) for s in hshapes]):
        tot.update(cnt)
        for sig, case, text in probs:
            ctx.problem(sig, case, text)
    ctx.set("request_forms_checked", tot["request_forms"])
    ctx.set("request_forms_completed", tot["request_forms_ok"])
    ctx.set("history_calls_compared", tot["history_calls"])
    ctx.set("history_requests_where_modes_plan_differently", tot["history_requests_where_modes_plan_differently"])
    ctx.set("planner_rejections", tot["rejected"])
    ctx.set("planner_multistage_plans", tot["multistage_plans"])
    ctx.set("end_to_end_rechunks", tot["e2e"])
    ctx.set("end_to_end_completed", tot["e2e_ok"])
    ctx.set("end_to_end_multistage", tot["e2e_multistage"])
    ctx.set("end_to_end_rejected", tot["e2e_rejected"])
    ctx.set("rule", "planner call = (planner, shape, source chunks, target chunks, itemsize, min_mem, max_mem): every 1-d n<=24/40, 2-d dims<=5/8, 3-d dims<=3/4, "
            "all chunk pairs, memory ladders around the admission boundaries; distinct_nontrivial = accepted plans with source != target chunks plus completed end-to-end rechunks")
    ctx.sample(dict(planner="regular", shape=[7], source_chunks=[2], target_chunks=[5], itemsize=8, min_mem=1, max_mem=56))
    ctx.assumptions += ["a planner call is given 20 s of CPU time (ITIMER_VIRTUAL, load-independent) before it counts as non-terminating",
                        "reads need not align with source chunks (only with the chunks a stage writes)"]
