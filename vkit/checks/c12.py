"""C12 - declared shape/dtype/chunks are truthful; written blocks match their region.

The C01 space on the controlled executor with the block-write monitor, for
every task of every op (intermediate, fused and multi-output ops included).
"""
from __future__ import annotations

from collections import Counter

import numpy as np

from ..catalog import cases
from ..common import Problem
from ..runcase import run_case
from ..sweep import sweep

PROPERTY = "C12"
LEVEL = "exploration"


def grid_of(za):
    """chunk grid of a zarr array as tuple of tuples of sizes"""
    try:
        cs = za.chunks
        return tuple(tuple(min(c, n - o) for o in range(0, n, c)) if n else (0,) for n, c in zip(za.shape, cs))
    except NotImplementedError:
        return tuple(tuple(int(x) for x in d) for d in za.read_chunk_sizes)


def norm_chunks(chunks, shape):
    return tuple(tuple(int(c) for c in cs) if n else (0,) for cs, n in zip(chunks, shape))


def metadata_problems(outs, got, world, dag):
    import zarr
    from cubed.storage.zarr import LazyZarrArray

    probs = []
    store = world.stores["inter"]
    for k, (o, g) in enumerate(zip(outs, got)):
        g = np.asarray(g)
        if tuple(o.shape) != g.shape:
            probs.append(("declared-shape", f"output {k}: declared shape {tuple(o.shape)} but computed {g.shape}"))
        if np.dtype(o.dtype) != g.dtype:
            probs.append(("declared-dtype", f"output {k}: declared dtype {o.dtype} but computed {g.dtype}"))
        if tuple(map(sum, o.chunks)) != tuple(o.shape) and all(o.shape):
            probs.append(("declared-chunks", f"output {k}: chunks {o.chunks} do not add up to shape {o.shape}"))
    # every array of the executed plan that is backed by a lazily created Zarr array
    if dag is not None:
        for name, d in dag.nodes(data=True):
            t = d.get("target")
            if isinstance(t, LazyZarrArray) and t.store is store:
                try:
                    if t.dtype.fields is not None:
                        grp = zarr.open_group(store, path=t.path, mode="r")
                        zas = [grp[f] for f in t.dtype.fields]
                    else:
                        zas = [zarr.open_array(store, path=t.path, mode="r")]
                except Exception as e:
                    probs.append(("backing-missing", f"array {name}: declared in the plan but not found in storage ({type(e).__name__})"))
                    continue
                for za in zas:
                    if tuple(za.shape) != tuple(t.shape):
                        probs.append(("backing-shape", f"array {name}: plan says shape {t.shape}, storage has {za.shape}"))
                    want = tuple(int(c) for c in t.chunks) if not isinstance(t.chunks[0] if t.chunks else 0, tuple) else None
                    if t.dtype.fields is None and np.dtype(za.dtype) != np.dtype(t.dtype):
                        probs.append(("backing-dtype", f"array {name}: plan says dtype {t.dtype}, storage has {za.dtype}"))
    # requested arrays: declared chunks equal backing grid
    for k, o in enumerate(outs):
        try:
            za = zarr.open_array(store, path=o.name, mode="r")
        except Exception:
            continue  # input arrays / virtual arrays are not stored
        if grid_of(za) != norm_chunks(o.chunks, o.shape) and all(o.shape):
            probs.append(("declared-chunks", f"output {k}: declared chunks {o.chunks} but the backing Zarr array has grid {grid_of(za)}"))
        if tuple(za.shape) != tuple(o.shape):
            probs.append(("backing-shape", f"output {k}: declared shape {o.shape}, backing array {za.shape}"))
        if np.dtype(za.dtype) != np.dtype(o.dtype):
            probs.append(("backing-dtype", f"output {k}: declared dtype {o.dtype}, backing array {za.dtype}"))
    return probs


def eval_case(case, seed, tier):
    cnt = Counter()
    probs = []
    # quick: unoptimized plans (every intermediate is written) on the deterministic third of the cases (hash % 3 == 0)
    from ..common import stable_hash
    both = tier != "quick" or int(stable_hash({k: v for k, v in case.items() if not k.startswith("_")}), 16) % 3 == 0
    for optimize in ((True, False) if both else (True,)):
        obs = run_case(case, seed=seed, optimize=optimize, monitor=True, keep_world=True)
        try:
            cnt["evaluations"] += 1
            if obs.phase != "OK":
                cnt["declined_or_error"] += 1
                continue
            cnt["checked"] += 1
            cnt["block_writes_checked"] += obs.nwrites or 0
            if obs.nontrivial:
                cnt["nontrivial"] += 1
            found = []
            for t, path, reg, vs in obs.write_mismatch or []:
                found.append(("block-shape", f"task {t} wrote a block of shape {vs} into a region of shape {reg} of array {path}"))
            ex_dag = None
            found += metadata_problems(obs.outs, obs.got, obs.world, getattr(obs, "dag", None))
            for kind, text in found[:1]:
                probs.append((dict(op=case["op"], kind=kind, fn=case["params"].get("fn")),
                              f"{case['op']} {case['params']} inputs={[(i['shape'], i['chunks'], i['dtype']) for i in case['inputs']]} optimize={optimize}: {text}"))
            if found:
                break
        finally:
            w = obs.get("world")
            if w is not None:
                w.dispose()
    return cnt, probs


def replay_case(case):
    if case.get("op") == "program":
        from .c12_programs import eval_case as ev
        _, probs = ev(case, 0, "thorough")
    else:
        _, probs = eval_case(case, 0, "thorough")
    return [Problem(sig, case, d) for sig, d in probs]


def run(ctx):
    from ..programs import program_cases
    from . import c12_programs
    cs = list(cases(ctx.tier))
    total = sweep(ctx, __name__, cs)
    pc = list(program_cases(ctx.tier))
    total2 = sweep(ctx, c12_programs.__name__, pc, chunksize=20)
    ctx.set("evaluations", total["evaluations"] + total2["evaluations"])
    ctx.set("distinct_nontrivial", total["nontrivial"] + total2["nontrivial"])
    ctx.set("computations_checked", total["checked"] + total2["checked"])
    ctx.set("block_writes_checked", total["block_writes_checked"] + total2["block_writes_checked"])
    ctx.set("declined_or_error_not_judged_here", total["declined_or_error"] + total2["declined_or_error"])
    ctx.set("catalogue_cases", len(cs))
    ctx.set("program_cases", len(pc))
    ctx.set("rule", "every catalogue case and program of the tier; for each computation: declared shape/dtype/chunks vs computed result and vs the "
            "backing Zarr arrays of every array in the executed plan, and value.shape == region shape for every zarr.Array.__setitem__ "
            "issued by every task; distinct_nontrivial = computations with >= 2 blocks in some input")
    ctx.assumptions += ["block writes are observed by wrapping zarr.Array.__setitem__ (harness side) for the duration of a case"]
