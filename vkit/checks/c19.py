"""C19 - acceptance and results do not depend on how resources are configured.

Every catalogued operation (three geometries each) and a program slice is
evaluated under nine configuration variants: the global default configuration
(no spec= anywhere), an explicit equal Spec, and explicit Specs differing in
work_dir / intermediate store object / compressor (None, 'auto', explicit
codec) / reserved_mem / executor / larger allowed_mem.  The triple
(phase, exception type | OK, values) must be identical across variants.
"""
from __future__ import annotations

import os
import shutil
import tempfile
from collections import Counter

import numpy as np

from ..catalog import OPS, cases
import itertools

from ..common import Problem
from ..runcase import as_tuple, compare, np_inputs, reference
from ..sweep import sweep

PROPERTY = "C19"
LEVEL = "exploration"

VARIANTS = ["global-default", "explicit-equal", "other-work_dir", "store-object", "compressor-none", "compressor-codec",
            "reserved_mem", "executor-threads", "larger-allowed_mem", "large-reserve-same-usable", "separate-equal-specs", "default-config-reloaded"]
# variants that give every input array its own Spec object / config context (catalogue cases only)
PER_INPUT = ("separate-equal-specs", "default-config-reloaded")
ALLOWED = 4_000_000
_TICK = itertools.count(1)


def variant_spec(v, dirs, ALLOWED=ALLOWED):
    """returns (spec or None, config dict for cubed.config.set or None)"""
    import cubed
    from zarr.storage import MemoryStore

    base = dict(work_dir=dirs[0], allowed_mem=ALLOWED, reserved_mem=0, executor_name="single-threaded")
    if v in ("global-default", "default-config-reloaded"):
        return None, {"spec.work_dir": dirs[0], "spec.allowed_mem": ALLOWED, "spec.reserved_mem": 0, "spec.executor_name": "single-threaded"}
    kw = dict(base)
    if v == "other-work_dir":
        kw["work_dir"] = dirs[1]
    elif v == "store-object":
        kw.pop("work_dir")
        kw["intermediate_store"] = MemoryStore()
    elif v == "compressor-none":
        kw["zarr_compressor"] = None
    elif v == "compressor-codec":
        kw["zarr_compressor"] = {"name": "blosc", "configuration": {"cname": "lz4", "clevel": 2, "shuffle": "shuffle"}}
    elif v == "reserved_mem":
        kw["reserved_mem"] = 1000
    elif v == "executor-threads":
        kw["executor_name"] = "threads"
    elif v == "larger-allowed_mem":
        kw["allowed_mem"] = ALLOWED * 4
    elif v == "large-reserve-same-usable":
        # most of the budget is reserved for non-data memory; what is left for data is the same as in the other variants
        kw["reserved_mem"] = 6_000_000
        kw["allowed_mem"] = ALLOWED + 6_000_000
    return cubed.Spec(**kw), None


def run_variant(build, v, dirs, allowed=ALLOWED):
    """build(spec) -> tuple of arrays.  returns (phase, exc type, values)"""
    import contextlib
    import cubed

    spec, cfg = variant_spec(v, dirs, allowed)
    cm = cubed.config.set(cfg) if cfg else contextlib.nullcontext()
    with cm:
        try:
            if v == "separate-equal-specs":
                # every input lives under its own Spec object with equal settings, and the first input has already been
                # computed on its own (equal settings are what counts, not object identity or what a Spec has been used for)
                outs = build(lambda k: variant_spec("explicit-equal", dirs, allowed)[0], warm=True)
            elif v == "default-config-reloaded":
                # default configuration; between creating the inputs an unrelated configuration key is set and the first input is computed
                outs = build(lambda k: None, warm=True, between=lambda: cubed.config.set({"vkit.unrelated": next(_TICK)}))
            else:
                outs = build(lambda k: spec)
        except Exception as e:
            return ("BUILD", type(e).__name__, str(e)[:150])
        try:
            got = cubed.compute(*outs)
        except Exception as e:
            return ("COMPUTE", type(e).__name__, str(e)[:150])
        return ("OK", None, [np.asarray(g) for g in got])


def same(a, b):
    if a[0] != b[0] or a[1] != b[1]:
        return False
    if a[0] != "OK":
        return True
    if len(a[2]) != len(b[2]):
        return False
    return all(x.shape == y.shape and np.array_equal(x, y, equal_nan=True) for x, y in zip(a[2], b[2]))


def judge(results, describe):
    probs = []
    ref = results["explicit-equal"]
    for v, r in results.items():
        if not same(ref, r):
            probs.append((v, f"{describe}: under '{v}' -> {r[0]} {r[1] or ''} {r[2] if r[0] != 'OK' else ''}; under 'explicit-equal' -> {ref[0]} {ref[1] or ''} {ref[2] if ref[0] != 'OK' else ''}"))
    return probs


def eval_case(case, seed, tier):
    import cubed.array_api as xp

    cnt = Counter()
    probs = []
    dirs = [tempfile.mkdtemp(prefix="vkit-c19-"), tempfile.mkdtemp(prefix="vkit-c19-")]
    try:
        if case.get("op") == "program":
            from ..programs import Builder
            from ..tstore import World

            def build(spec_for, warm=False, between=None):
                spec = spec_for(0)
                w = World()
                try:
                    b = Builder(spec, w, seed)
                    return tuple(b.build(t)[0] for t in case["terms"])
                finally:
                    w.dispose()
            desc = f"program {case['terms']}"
        else:
            op = OPS[case["op"]]
            ns = np_inputs(case, seed)

            def build(spec_for, warm=False, between=None):
                xs = []
                for k, (i, a) in enumerate(zip(case["inputs"], ns)):
                    xs.append(xp.asarray(a, chunks=tuple(i["chunks"]), spec=spec_for(k)))
                    if k == 0 and warm:
                        if between is not None:
                            between()
                        xs[0].compute()
                if getattr(op, "special", False):
                    return (xs[0],)
                if getattr(op, "needs_spec", False):
                    return as_tuple(op.build(xs, case["params"], spec=spec_for(len(xs))))
                return as_tuple(op.build(xs, case["params"]))
            desc = f"{case['op']} {case['params']} inputs={[(i['shape'], i['chunks']) for i in case['inputs']]}"
        if case.get("op") != "program" and (OPS[case["op"]].nondet or case["params"].get("fn") in ("empty", "empty_like")):
            return cnt, probs  # no defined values to compare
        results = {}
        for v in VARIANTS:
            if v in PER_INPUT and (case.get("op") == "program" or len(case["inputs"]) < 2):
                continue
            results[v] = run_variant(build, v, dirs, case.get("_allowed", ALLOWED))
            cnt["evaluations"] += 1
        cnt["cases"] += 1
        if results["explicit-equal"][0] == "OK":
            cnt["nontrivial"] += 1
        else:
            cnt["declined_consistently_or_not"] += 1
        for v, text in judge(results, desc)[:1]:
            probs.append((dict(kind="configuration-dependent", variant=v, op=case.get("op"), fn=case.get("params", {}).get("fn")), text))
    finally:
        for d in dirs:
            shutil.rmtree(d, ignore_errors=True)
    return cnt, probs


def replay_case(case):
    _, probs = eval_case(case, 0, "thorough")
    return [Problem(sig, case, d) for sig, d in probs]


def pick_cases(tier):
    per = 2 if tier == "quick" else 8
    seen = Counter()
    out = []
    for c in cases("quick"):
        key = (c["op"], c["params"].get("fn"), c["params"].get("mode"), c["params"].get("op"))
        multi = any(n > ch for i in c["inputs"] for n, ch in zip(i["shape"], i["chunks"])) or not c["inputs"]
        if seen[key] < per and multi:
            seen[key] += 1
            out.append(c)
        # zero-size operands chunked differently from each other (aligned through a rechunk that moves no data)
        zkey = ("zero-size",) + key
        if len(c["inputs"]) >= 2 and any(0 in i["shape"] for i in c["inputs"]) and len({tuple(i["chunks"]) for i in c["inputs"]}) > 1 and seen[zkey] < per:
            seen[zkey] += 1
            out.append(c)
    # operations whose plan depends on the memory budget, on an array larger than the per-task budget
    from ..catalog import inp
    out.append(dict(op="rechunk", inputs=[inp((300, 300), (300, 10))], params=dict(chunks=[10, 300]), _allowed=1_000_000))
    out.append(dict(op="rechunk", inputs=[inp((300, 300), (300, 10))], params=dict(chunks=[10, 300], allow_irregular=False), _allowed=1_000_000))
    out.append(dict(op="sum", inputs=[inp((1000, 100), (25, 100))], params=dict(axis=0, keepdims=False, split_every=None), _allowed=1_000_000))
    return out


def run(ctx):
    from ..programs import program_cases
    cs = pick_cases(ctx.tier)
    pc = list(program_cases("quick"))
    pc = [p for p in pc if p["nodes"] == 1] + [p for p in pc if p["nodes"] == 2][:: (40 if ctx.tier == "quick" else 2)]
    total = sweep(ctx, __name__, cs + pc, chunksize=12)
    ctx.set("evaluations", total["evaluations"])
    ctx.set("distinct_nontrivial", total["nontrivial"])
    ctx.set("cases", total["cases"])
    ctx.set("variants", VARIANTS)
    ctx.set("catalogue_cases", len(cs))
    ctx.set("program_cases", len(pc))
    ctx.set("rule", "case x 12 configuration variants (the two per-input variants only for catalogue cases with >= 2 inputs); distinct_nontrivial = cases accepted and computed under the reference variant (all nine outcomes compared)")
    ctx.sample(dict(case=cs[0], variants=VARIANTS))
    ctx.assumptions += ["allowed_mem (4 MB) suffices for every plan of the enumerated cases", "random arrays are excluded (no fixed values)"]
