from __future__ import annotations

from collections import Counter

from ..cexec import ControlledExecutor
from ..programs import Builder
from ..tstore import World
from .c16 import side_effects


def eval_case(case, seed, tier):
    import cubed

    cnt = Counter()
    probs = []
    w = World()
    try:
        ex = ControlledExecutor(world=w)
        spec = cubed.Spec(intermediate_store=w.store("inter"), allowed_mem=4_000_000, reserved_mem=0, executor=ex)
        b = Builder(spec, w, seed)
        b.input("z")  # creating the Zarr input writes the harness's own source store
        mark = w.mark()
        stage = "build"
        try:
            arrs = [b.build(t)[0] for t in case["terms"]]
            stage = "plan"
            for o in (True, False):
                cubed.plan(*arrs, optimize_graph=o)
            stage = "done"
        except Exception:
            cnt["declined"] += 1
        cnt["evaluations"] += 1
        if stage == "done":
            cnt["nontrivial"] += 1
        found = []
        if ex.entered:
            found.append(("executed-while-lazy", f"an executor was entered during {stage}"))
        eff = side_effects(w, mark)
        if eff:
            found.append(("storage-side-effect", f"storage touched while only building/planning: {eff[:3]}"))
        for k, t in found:
            probs.append((dict(kind=k, op="program"), f"program {case['terms']}: {t}"))
    finally:
        w.dispose()
    return cnt, probs
