"""C16 - building, planning and visualising are lazy and free of side effects.

Every catalogue case and every program of the tier is built, planned
(optimized and not), and (on a slice) visualised / repr'd with all stores being
tracing stores and the spec's executor being a flagging executor: no executor
entry, no set/delete, no data-chunk read.  The listed eager entry points are
checked to enter an executor.
"""
from __future__ import annotations

import operator
import os
import shutil
import tempfile
from collections import Counter

import numpy as np

from ..catalog import OPS, cases
from ..cexec import ControlledExecutor
from ..common import Problem
from ..runcase import as_tuple, cubed_inputs, np_inputs
from ..sweep import sweep
from ..tstore import World, is_chunk_key

PROPERTY = "C16"
LEVEL = "exploration"


def side_effects(world, mark, skip_src_until=None):
    """set/delete/data-chunk-read events after mark; events before skip_src_until that hit a 'src*' store are the
    harness creating its own Zarr inputs and are not counted"""
    bad = []
    evs = list(world.events(mark))
    n_own = (skip_src_until - mark) if skip_src_until is not None else 0
    for k, ev in enumerate(evs):
        if k < n_own and ev.store.startswith("src"):
            continue
        if ev.op in ("set", "delete"):
            bad.append(f"{ev.op} {ev.store}:{ev.key}")
        elif ev.op == "get" and is_chunk_key(ev.key):
            bad.append(f"data-chunk read {ev.store}:{ev.key}")
    return bad


def eval_case(case, seed, tier):
    import cubed
    from cubed.core.rechunk import rechunk_plan

    cnt = Counter()
    probs = []
    op = OPS[case["op"]]
    for src in (None, "from_zarr"):
        if src and (not case["inputs"] or case["params"].get("src") or not case.get("_zarr")):
            continue
        w = World()
        try:
            ex = ControlledExecutor(world=w)
            spec = cubed.Spec(intermediate_store=w.store("inter"), allowed_mem=4_000_000, reserved_mem=0, executor=ex)
            c2 = dict(case, params=dict(case["params"], **({"src": src} if src else {})))
            ns = np_inputs(case, seed)
            mark0 = w.mark()
            try:
                xs = cubed_inputs(c2, ns, spec, w)  # creating a Zarr *input* writes the harness's own source store ('src*'), nothing else
            except Exception:
                cnt["declined"] += 1
                continue
            mark = w.mark()
            stages = []
            outs = None
            with cubed.config.set({"spec.executor_name": None}):
                try:
                    if getattr(op, "special", False):
                        outs = (xs[0],)
                    elif getattr(op, "needs_spec", False):
                        outs = as_tuple(op.build(xs, case["params"], spec=spec))
                    else:
                        outs = as_tuple(op.build(xs, case["params"]))
                    stages.append("build")
                    for o in (True, False):
                        cubed.plan(*outs, optimize_graph=o)
                    stages.append("plan")
                    if case.get("_viz"):
                        d = tempfile.mkdtemp(prefix="vkit-c16-")
                        try:
                            cubed.visualize(*outs, filename=os.path.join(d, "g"), format="svg")
                            outs[0].visualize(filename=os.path.join(d, "h"), format="svg", optimize_graph=False)
                        finally:
                            shutil.rmtree(d, ignore_errors=True)
                        stages.append("visualize")
                        for o in outs:
                            repr(o)
                            o._repr_html_()
                            o.plan()
                        stages.append("repr")
                        if outs[0].ndim and all(outs[0].shape):
                            rechunk_plan(outs[0], tuple(max(1, n // 2) for n in outs[0].shape))
                            stages.append("rechunk_plan")
                except Exception:
                    cnt["declined"] += 1
            cnt["evaluations"] += 1
            if len(stages) >= 2:
                cnt["nontrivial"] += 1
            found = []
            if ex.entered:
                found.append(("executed-while-lazy", f"an executor was entered during {stages[-1] if stages else 'build'}+"))
            eff = side_effects(w, mark0, skip_src_until=mark)
            if eff:
                found.append(("storage-side-effect", f"storage touched while only building/planning (after stage {stages[-1] if stages else 'start'}): {eff[:3]}"))
            for k, t in found:
                probs.append((dict(kind=k, op=case["op"], fn=case["params"].get("fn")),
                              f"{case['op']} {case['params']} inputs={[(i['shape'], i['chunks']) for i in case['inputs']]} src={src}: {t}"))
        finally:
            w.dispose()
    return cnt, probs


def _dir_snapshot(d):
    out = {}
    for root, _, files in os.walk(d):
        for f in files:
            p = os.path.join(root, f)
            with open(p, "rb") as fh:
                out[os.path.relpath(p, d)] = fh.read()
    return out


def _lazy_write_to_existing_path(api):
    """a lazy write aimed at a filesystem path that already holds an array must leave every file there as it is"""
    def f(a, s, w):
        import cubed
        import zarr
        d = tempfile.mkdtemp(prefix="vkit-c16-")
        try:
            path = os.path.join(d, "t.zarr")
            za = zarr.create_array(path, shape=(4,), dtype="f8", chunks=(2,))
            za[:] = 7.0
            before = _dir_snapshot(d)
            if api == "to_zarr":
                r = cubed.to_zarr(a, path, compute=False)
            else:
                r = cubed.store(a, path, compute=False)
            r = r if isinstance(r, (tuple, list)) else (r,)
            cubed.plan(*r)
            after = _dir_snapshot(d)
            if before != after:
                gone = sorted(set(before) - set(after))
                changed = sorted(k for k in before if k in after and before[k] != after[k])
                new = sorted(set(after) - set(before))
                return f"SIDE-EFFECT: files under the existing target changed while only building: removed {gone[:3]}, rewritten {changed[:3]}, added {new[:3]}"
        finally:
            shutil.rmtree(d, ignore_errors=True)
    return f


def _plan_multistage_rechunk(a, s, w):
    """plan / visualize / repr of a multi-stage rechunk whose intermediate array has an irregular (rectilinear) chunk grid"""
    import cubed
    import cubed.array_api as xp
    sp = cubed.Spec(intermediate_store=w.store("inter-ms"), allowed_mem=8 * 6 * 6 + 100, reserved_mem=0, executor=s.executor)
    x = xp.asarray(np.arange(10.0), chunks=(6,), spec=sp)
    y = x.rechunk((5,))
    y.plan()
    fp = cubed.plan(y, optimize_graph=False)
    irregular = [n for n, dd in fp.dag.nodes(data=True) if getattr(dd.get("target"), "chunks", None) and not isinstance(dd["target"].chunks[0], int)]
    d = tempfile.mkdtemp(prefix="vkit-c16-")
    try:
        y.visualize(filename=os.path.join(d, "g"), format="svg")
    finally:
        shutil.rmtree(d, ignore_errors=True)
    repr(y)
    if not irregular:
        return "VACUOUS: the plan holds no irregularly chunked intermediate any more"


def eager_entry_points(_):
    """each eager entry point must enter an executor; each lazy twin must not"""
    import cubed
    import cubed.array_api as xp

    probs = []
    n = 0

    def fresh():
        w = World()
        ex = ControlledExecutor(world=w)
        spec = cubed.Spec(intermediate_store=w.store("inter"), allowed_mem=4_000_000, executor=ex)
        return w, ex, spec

    eager = {
        "compute": lambda a, s, w: a.compute(),
        "cubed.compute": lambda a, s, w: cubed.compute(a),
        "__array__": lambda a, s, w: np.asarray(a),
        "__bool__": lambda a, s, w: bool(xp.any(a > 0)),
        "__int__": lambda a, s, w: int(xp.astype(xp.sum(a), xp.int64)),
        "__float__": lambda a, s, w: float(xp.sum(a)),
        "__complex__": lambda a, s, w: complex(xp.sum(a)),
        "__index__": lambda a, s, w: operator.index(xp.astype(xp.sum(a), xp.int64)),
        "index-by-cubed-array": lambda a, s, w: a[xp.asarray(np.array([1, 0]), spec=s)],
        "store-eager": lambda a, s, w: cubed.store(a, w.store("t1")),
        "to_zarr-eager": lambda a, s, w: cubed.to_zarr(a, w.store("t2")),
    }
    lazy = {
        "store-lazy": lambda a, s, w: cubed.store(a, w.store("t1"), compute=False),
        "to_zarr-lazy": lambda a, s, w: cubed.to_zarr(a, w.store("t2"), compute=False),
        "store-lazy-region-new-target": lambda a, s, w: cubed.store(a, w.store("t3"), regions=(slice(0, 4),), compute=False),
        "to_zarr-lazy-region-new-target": lambda a, s, w: cubed.to_zarr(a, w.store("t4"), region=(slice(0, 4),), compute=False),
        "store-lazy-several": lambda a, s, w: cubed.store([a, xp.negative(a)], [w.store("t5"), w.store("t6")], compute=False),
        "store-refused-misaligned": "refused",
        "plan": lambda a, s, w: a.plan(),
        "rechunk": lambda a, s, w: a.rechunk((1,)),
        "negative": lambda a, s, w: xp.negative(a + a),
        "blocks": lambda a, s, w: a.blocks[0],
        # wrapping in-memory data of any size is construction, not execution: nothing may reach a store
        "from_array-small": lambda a, s, w: cubed.from_array(np.ones((4, 5)), chunks=(2, 5), spec=s),
        "from_array-2MB": lambda a, s, w: xp.negative(cubed.from_array(np.ones((500, 500)), chunks=(100, 500), spec=s)),
        "from_array-above-allowed_mem": lambda a, s, w: cubed.from_array(np.ones((1000, 600)), chunks=(100, 600), spec=s),
        "asarray-2MB": lambda a, s, w: xp.negative(xp.asarray(np.ones((500, 500)), chunks=(100, 500), spec=s)),
        "asarray-above-allowed_mem": lambda a, s, w: xp.asarray(np.ones((1000, 600)), chunks=(100, 600), spec=s),
        "asarray-of-array-with-dtype": lambda a, s, w: xp.asarray(a, dtype=xp.float32),
        "astype": lambda a, s, w: xp.astype(a, xp.int32),
        "to_zarr-lazy-existing-path": _lazy_write_to_existing_path("to_zarr"),
        "store-lazy-existing-path": _lazy_write_to_existing_path("store"),
        "plan-of-multistage-rechunk": _plan_multistage_rechunk,
    }
    for name, f in list(eager.items()) + list(lazy.items()):
        w, ex, spec = fresh()
        try:
            a = xp.negative(xp.asarray(np.arange(1.0, 5.0), chunks=(2,), spec=spec))
            mark = w.mark()
            if f == "refused":
                # an eager store that must be refused (region not aligned with the target's chunks) leaves nothing behind
                import zarr as _z
                tstore = w.store("t7")
                za = _z.create_array(tstore, shape=(8,), dtype="f8", chunks=(4,))
                mark = w.mark()
                try:
                    cubed.store(a, za, regions=(slice(1, 5),))
                    probs.append((dict(kind="unsafe-store-accepted", entry=name), "a store into a region that is not aligned with the target's chunks was accepted"))
                except ValueError:
                    pass
                n += 1
                eff = side_effects(w, mark)
                if eff or ex.entered:
                    probs.append((dict(kind="storage-side-effect", entry=name), f"{name}: refused call touched storage / executed: {eff[:3]}"))
                continue
            ret = None
            try:
                ret = f(a, spec, w)
            except (ValueError, TypeError, NotImplementedError) as e:
                if name in eager:
                    probs.append((dict(kind="entry-point-error", entry=name), f"{name} raised {type(e).__name__}: {e}"))
                    continue
                # a lazy construction may be declined explicitly (e.g. in-memory data above the size limit); it still must leave nothing behind
            except Exception as e:
                probs.append((dict(kind="entry-point-error", entry=name), f"{name} raised {type(e).__name__}: {e}"))
                continue
            n += 1
            if name in eager and not ex.entered:
                probs.append((dict(kind="eager-did-not-execute", entry=name), f"{name} did not enter an executor"))
            if isinstance(ret, str) and ret.startswith("SIDE-EFFECT"):
                probs.append((dict(kind="storage-side-effect", entry=name), f"{name}: {ret}"))
            if isinstance(ret, str) and ret.startswith("VACUOUS"):
                from ..common import HarnessError
                raise HarnessError(f"C16 entry {name}: {ret}")
            if name in lazy:
                if ex.entered:
                    probs.append((dict(kind="executed-while-lazy", entry=name), f"{name} entered an executor"))
                eff = side_effects(w, mark)
                if eff:
                    probs.append((dict(kind="storage-side-effect", entry=name), f"{name} touched storage: {eff[:3]}"))
        finally:
            w.dispose()
    return n, probs


def replay_case(case):
    if case.get("op") == "program":
        from .c16_programs import eval_case as ev
        _, probs = ev(case, 0, "thorough")
    elif case.get("entry"):
        _, ps = eager_entry_points(None)
        return [Problem(sig, case, t) for sig, t in ps]
    else:
        _, probs = eval_case(case, 0, "thorough")
    return [Problem(sig, case, d) for sig, d in probs]


def run(ctx):
    from ..programs import program_cases
    from . import c16_programs
    cs = list(cases(ctx.tier))
    # visualise / repr on a slice: first multi-block case of every (op, fn)
    seen = set()
    nviz = 0
    # 'take' with a cubed index array evaluates the index eagerly (a listed eager entry point)
    cs = [c for c in cs if c["op"] != "take"]
    if ctx.tier == "quick":
        cs = cs[::2]  # every second catalogue case (deterministic partition; the catalogue is swept fully in thorough)
    for k, c in enumerate(cs):
        if k % (10 if ctx.tier == "quick" else 2) == 0:
            c["_zarr"] = True
    for c in cs:
        key = (c["op"], c["params"].get("fn"))
        if key not in seen and any(n > ch for i in c["inputs"] for n, ch in zip(i["shape"], i["chunks"])):
            seen.add(key)
            c["_viz"] = True
            c["_zarr"] = True
            nviz += 1
    total = sweep(ctx, __name__, cs, chunksize=60)
    pc = list(program_cases(ctx.tier))
    total2 = sweep(ctx, c16_programs.__name__, pc, chunksize=40)
    n, ps = eager_entry_points(None)
    for sig, t in ps:
        ctx.problem(sig, dict(entry=sig.get("entry")), t)
    ctx.set("evaluations", total["evaluations"] + total2["evaluations"] + n)
    ctx.set("distinct_nontrivial", total["nontrivial"] + total2["nontrivial"])
    ctx.set("catalogue_cases", len(cs))
    ctx.set("visualised_and_repr_cases", nviz)
    ctx.set("program_cases", len(pc))
    ctx.set("entry_points_checked", n)
    ctx.set("declined", total["declined"] + total2["declined"])
    ctx.set("rule", "every catalogue case (in-memory and Zarr inputs) and program: build, plan(optimized and not); a slice additionally visualize/repr/_repr_html_/"
            "rechunk_plan; non-trivial = reached the plan stage")
    ctx.assumptions += ["reads of Zarr metadata (zarr.json) of *input* arrays at build time are not side effects; creating the harness's own Zarr inputs is excluded"]
