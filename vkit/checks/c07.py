"""C07 - executors never let a task read data its producers have not finished writing.

Stateless model checking of the real async_map_dag (sequential and
compute_arrays_in_parallel, with batching) on the virtual loop: every
completion order of the running tasks within the deviation bound, under the
overlay store (reads at submission, writes visible at completion).  Oracle on
the trace: every read of a produced chunk hits a final value; create-arrays
ran first; values equal NumPy.  The real SingleThreadedExecutor, threads and
processes executors are replayed once per DAG as conformance runs.
"""
from __future__ import annotations

from collections import Counter

import numpy as np

from ..common import HarnessError, Problem, perm
from ..explore import Chooser, explore
from ..programs import Builder
from ..runcase import make_spec
from ..traceinv import reads_after_writes
from ..tstore import World
from ..vexec import VirtualExecutor
from ..vloop import seam_selftest

PROPERTY = "C07"
LEVEL = "model_checking"

A, B, Z = "a", "b", "z"
DAGS = {
    "branches": dict(terms=[["neg", A], ["T", B]]),
    "diamond": dict(terms=[["sub", ["neg", A], ["mapblk", ["neg", A]]]]),
    "chain-4-1-4": dict(terms=[["sub", B, ["sumall", ["neg", A]]]]),
    "multi-output": dict(terms=[["sub", ["unstack0", ["neg", A]], ["unstack1", ["neg", A]]]]),
    "rechunk-2stage": dict(terms=[["neg", ["rechunk", ["T", A]]]], mem="tight"),
    "reduction-tree": dict(terms=[["sum0", ["sub", A, B]], ["mean1", Z]]),
    "store-target": dict(terms=[["neg", A]], store=True),
    "concat-stack": dict(terms=[["concat0", ["neg", A], ["slice1", B]], ["stack0", A, ["neg", B]]]),
    "fan-out": dict(terms=[["neg", ["neg", A]], ["T", ["neg", A]], ["sum0", ["neg", A]]]),
    "argmax-chain": dict(terms=[["argmax1", ["sub", A, Z]]]),
    "cumsum": dict(terms=[["cumsum0", ["neg", Z]]]),
    "matmul": dict(terms=[["matmulT", ["neg", A], B]]),
    # an op that takes the same array twice (parallel edges in the plan multigraph) plus an input with a longer producer chain
    "repeated-arg": dict(terms=[["fma3", ["neg", A], ["neg", A], ["neg", ["T", ["T", ["mapblk", A]]]]]]),
    "repeated-arg-late": dict(terms=[["fma3", ["neg", ["T", ["T", ["mapblk", A]]]], ["neg", A], ["neg", A]]]),
}
QUICK_DAGS = ["branches", "diamond", "chain-4-1-4", "multi-output", "rechunk-2stage", "store-target", "repeated-arg"]


def configs(tier):
    out = []
    names = QUICK_DAGS if tier == "quick" else list(DAGS)
    for d in names:
        for optimize in (True, False):
            for parallel in (False, True):
                for bs in (None, 1, 2):
                    out.append(dict(dag=d, optimize=optimize, parallel=parallel, batch_size=bs))
    # the same scheduler driven through cubed's own create-futures functions (threads: run_func_threads;
    # processes: cloudpickle + unpickle_and_call) over a held pool
    for d in names:
        for fut in ("threads", "processes"):
            for parallel in (False, True):
                for bs in (None, 2):
                    out.append(dict(dag=d, optimize=False, parallel=parallel, batch_size=bs, futures=fut))
    return out


def run_once(cfg, chooser, seed=0, executor=None, fp=False):
    """one execution; returns observation dict"""
    import cubed
    import zarr

    d = DAGS[cfg["dag"]]
    world = World()
    try:
        kw = {}
        if d.get("mem") == "tight":
            kw["allowed_mem"] = 1200
        spec = make_spec(world, **kw)
        b = Builder(spec, world, seed)
        built = [b.build(t) for t in d["terms"]]
        arrs = [x for x, _ in built]
        exp = [v for _, v in built]
        if d.get("store"):
            tgt = world.store("tgt")
            arrs = list(cubed.store(arrs, [tgt], compute=False))
        ex = executor or VirtualExecutor(world, chooser=chooser, overlay=True, parallel=cfg["parallel"], batch_size=cfg["batch_size"],
                                         real_futures=cfg.get("futures"))
        if fp and executor is None:
            ex.chooser = FpChooser(chooser, [ex])
        mark = world.mark()
        err = None
        got = None
        try:
            got = cubed.compute(*arrs, executor=ex, optimize_graph=cfg["optimize"],
                                **({} if executor is None else dict(compute_arrays_in_parallel=cfg["parallel"], **({"batch_size": cfg["batch_size"]} if cfg["batch_size"] else {}))))
        except HarnessError:
            raise
        except Exception as e:
            import re as _re
            err = _re.sub(r"\b(array|op)-\d+", r"\1-N", f"{type(e).__name__}: {str(e)[:200]}")
        probs = []
        if err is not None:
            probs.append(("execution-error", err))
        else:
            for k, (g, e) in enumerate(zip(got, exp)):
                if np.shape(g) != np.shape(e) or not np.allclose(g, e, equal_nan=True):
                    probs.append(("wrong-value", f"requested[{k}] differs from NumPy: {np.asarray(g).tolist()} vs {np.asarray(e).tolist()}"))
                    break
            if d.get("store"):
                t = np.asarray(zarr.open_array(world.stores["tgt"].with_read_only(True), mode="r")[...])
                if not np.allclose(t, exp[0]):
                    probs.append(("wrong-value", "store target differs from NumPy"))
        probs += reads_after_writes(world, mark)[:3]
        ntasks = len(getattr(ex, "completed", []))
        nops = len({n for n, _ in getattr(ex, "completed", [])})
        digest = ex.state_fingerprint()[2] if hasattr(ex, "state_fingerprint") else 0
        canon = getattr(ex, "canon", str)
        probs = [(k, canon(t)) for k, t in probs]
        return dict(probs=probs, ntasks=ntasks, nops=nops, completed=[canon(x) for x in getattr(ex, "completed", [])], digest=digest,
                    max_pending=getattr(ex, "max_pending", 0))
    finally:
        world.dispose()


class FpChooser:
    """wraps a Chooser: adds a state fingerprint = (completed set, submitted set, trace digest)"""

    def __init__(self, ch, exref):
        self.ch = ch
        self.exref = exref

    def choose(self, k, label="", fp=None):
        return self.ch.choose(k, label, self.exref[0].state_fingerprint())


def explore_cfg(item):
    cfg, max_dev, limit, seed = item
    outcomes = set()
    stats = Counter()

    def run(ch):
        return run_once(cfg, ch, seed, fp=True)

    def check(obs, trace):
        return obs["probs"]

    def on_exec(obs, ch):
        outcomes.add((tuple(obs["completed"]), obs["digest"]))
        stats["tasks"] = max(stats["tasks"], obs["ntasks"])
        stats["ops"] = max(stats["ops"], obs["nops"])
        stats["max_pending"] = max(stats["max_pending"], obs["max_pending"])

    st = explore(run, check, max_dev, prune=True, limit=limit, on_exec=on_exec)
    probs = []
    seen = set()
    for trace, (kind, text) in sorted(st["problems"], key=lambda tp: (sum(1 for c in tp[0] if c), len(tp[0]))):
        if kind in seen:
            continue
        seen.add(kind)
        o1 = run_once(cfg, Chooser(trace, 10**9, None), seed)
        o2 = run_once(cfg, Chooser(trace, 10**9, None), seed)
        if o1["probs"] != o2["probs"] or o1["completed"] != o2["completed"]:
            raise HarnessError(f"replay divergence cfg={cfg} trace={trace}")
        probs.append(dict(kind=kind, text=text, trace=trace))
    st.pop("problems")
    st.update(cfg=cfg, max_dev=max_dev, orders=len(outcomes), probs=probs, **stats)
    return st


def conformance(item):
    """real executors: one run each, same trace invariants (not deciding)"""
    cfg, execname = item
    from cubed.runtime.create import create_executor
    ex = create_executor(execname)
    obs = run_once(cfg, None, 0, executor=ex)
    return cfg, execname, obs["probs"]


def sig(cfg, kind):
    return dict(kind=kind, parallel=cfg["parallel"], batching=cfg["batch_size"] is not None, dag=cfg["dag"], futures=cfg.get("futures"))


def replay_case(case):
    if case.get("conformance"):
        _, _, probs = conformance((case["cfg"], case["conformance"]))
        return [Problem(sig(case["cfg"], k), case, t) for k, t in probs]
    obs = run_once(case["cfg"], Chooser(case["trace"], 10**9, None), case.get("seed", 0))
    return [Problem(sig(case["cfg"], k), case, t) for k, t in obs["probs"]]


def run(ctx):
    seam_selftest()
    tier = ctx.tier
    cfgs = configs(tier)
    max_dev = 2 if tier == "quick" else 3
    limit = 1500 if tier == "quick" else 20000
    res = ctx.pmap(explore_cfg, perm([(c, max_dev, limit, ctx.seed) for c in cfgs], ctx.seed))
    execs = states = trans = orders = 0
    per = []
    for st in res:
        execs += st["executions"]
        states += st["states"]
        trans += st["transitions"]
        orders += st["orders"]
        if st["capped"]:
            ctx.capped = f"execution limit {limit} hit (cfg {st['cfg']}, bound {max_dev})"
        per.append(dict(cfg=st["cfg"], executions=st["executions"], pruned=st["pruned"], states=st["states"], distinct_orders=st["orders"],
                        tasks=st["tasks"], ops=st["ops"], max_running=st["max_pending"]))
        for p in st["probs"]:
            ctx.problem(sig(st["cfg"], p["kind"]), dict(cfg=st["cfg"], trace=p["trace"], seed=ctx.seed),
                        f"{p['text']} [cfg={st['cfg']} completion-choice-sequence={p['trace']}]")
    # conformance on real executors
    names = QUICK_DAGS if tier == "quick" else list(DAGS)
    items = []
    for d in names:
        for parallel in (False, True):
            for e in (["single-threaded", "threads"] + (["processes"] if tier == "thorough" and False else [])):
                items.append((dict(dag=d, optimize=True, parallel=parallel, batch_size=None), e))
    nconf = 0
    for cfg, e, probs in ctx.pmap(conformance, items):
        nconf += 1
        for k, t in probs:
            ctx.problem(dict(sig(cfg, k), executor=e), dict(cfg=cfg, conformance=e), f"{t} [real executor {e}, cfg={cfg}]")
    ctx.set("states", states)
    ctx.set("transitions", trans)
    ctx.set("traces_validated_against_impl", execs + nconf)
    ctx.set("executions", execs)
    ctx.set("distinct_completion_orders", orders)
    ctx.set("evaluations", execs + nconf)
    ctx.set("distinct_nontrivial", orders)
    ctx.set("deviation_bound", max_dev)
    ctx.set("configs", per)
    ctx.set("conformance_runs_real_executors", nconf)
    ctx.set("rule", "execution = completion order of running tasks chosen at every point where >= 2 tasks are running; all orders with <= bound "
            "non-default choices, pruned on (completed set, submitted set, trace digest); distinct_nontrivial = distinct (order, trace) pairs")
    ctx.sample(dict(cfg=cfgs[0], choice_sequence=[0, 1, 0], meaning="index into the canonically ordered list of running tasks to complete next"))
    ctx.assumptions += ["unbounded workers: every submitted task is running (over-approximates any max_workers)",
                        "storage modelled as reads-at-submission / writes-visible-at-completion (extremal latency)",
                        "processes executor not replayed here (in-memory store cannot cross processes); covered by C06 placement runs"]
