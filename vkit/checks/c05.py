"""C05 - every stored chunk has exactly one writer task, written whole; outputs covered.

From the store-level trace (TStore) of each computation on the controlled
executor: each data-chunk key of each produced array is set exactly once by one
task, never read by that task first, and the keys set equal the array's chunk
grid (region for region stores).  Spaces: catalogue x geometries, programs,
rechunk under a memory ladder (multi-stage, regular and irregular grids),
store/to_zarr into new / existing / differently chunked / sharded targets with
regions, multi-output ops.
"""
from __future__ import annotations

import itertools
from collections import Counter

from ..catalog import cases, inp
from ..common import Problem
from ..runcase import run_case
from ..scope import chunkings_1d, geoms
from ..sweep import sweep
from ..traceinv import single_writer

PROPERTY = "C05"
LEVEL = "exploration"


def rechunk_family(tier):
    """rechunk under allowed_mem values that force 1-, 2- and 3-stage plans"""
    out = []
    n1 = (6, 8) if tier == "quick" else (5, 6, 7, 8, 12)
    for n in n1:
        for c1 in chunkings_1d(n):
            for c2 in chunkings_1d(n):
                if c1 == c2:
                    continue
                for irr in (True, False):
                    out.append(dict(op="rechunk", inputs=[inp((n,), (c1,))], params=dict(chunks=[c2], allow_irregular=irr), _mem=None))
    dims = (4, 5) if tier == "quick" else (3, 4, 5, 6)
    for shape, c1 in geoms(2, dims):
        for c2 in itertools.product(*[chunkings_1d(k) for k in shape]):
            if c1 == c2:
                continue
            if tier == "quick" and not (1 in c1 or 1 in c2 or shape[0] in c1 or shape[1] in c2):
                continue
            for mem in (None, "tight"):
                for irr in (True, False):
                    out.append(dict(op="rechunk", inputs=[inp(shape, c1)], params=dict(chunks=list(c2), allow_irregular=irr), _mem=mem))
    # mixed geometries with an explicit min_mem: multi-stage plans in which one axis shrinks from a partial read chunk
    for (N, M) in ((12, 6), (20, 6)) if tier == "quick" else ((12, 6), (20, 6), (30, 12)):
        for s0 in (5, 7, 10):
            for t0 in (1, 2, 3):
                for irr in (True, False):
                    for shape, sc, tc in (((N, M), (s0, 1), (t0, M)), ((M, N), (1, s0), (M, t0))):
                        cm = 8 * max(sc[0] * sc[1], tc[0] * tc[1])
                        for f in (5, 5.5, 6, 7, 9, 12):
                            out.append(dict(op="rechunk", inputs=[inp(shape, sc)], params=dict(chunks=list(tc), allow_irregular=irr, min_mem=cm // 2), _mem=int(cm * f)))
    return out


def tight_mem(case):
    """allowed_mem just above what the largest of source/target chunk needs, so the planner must go multi-stage"""
    i = case["inputs"][0]
    import numpy as np
    src = int(np.prod(i["chunks"])) * 8
    tgt = int(np.prod(case["params"]["chunks"])) * 8
    return max(src, tgt) * 6 + 200


def eval_case(case, seed, tier):
    cnt = Counter()
    probs = []
    if case["op"] == "store":
        from .c11 import eval_store_case
        return eval_store_case(case, seed, tier, judge="writers")
    spec_kw = None
    if case.get("_mem") == "tight":
        spec_kw = dict(allowed_mem=tight_mem(case))
    if isinstance(case.get("_mem"), int):
        spec_kw = dict(allowed_mem=case["_mem"])
    if case["op"] == "rechunk" and "allow_irregular" in case["params"]:
        import cubed
        from ..catalog import OPS, _t
        # use the explicit allow_irregular form
        case = dict(case)
    for optimize in (True,):
        obs = run_case(case, seed=seed, optimize=optimize, keep_world=True, spec_kw=spec_kw)
        try:
            cnt["evaluations"] += 1
            if obs.phase != "OK":
                cnt["declined_or_error"] += 1
                continue
            cnt["checked"] += 1
            w = obs.world
            found = single_writer(w)
            nstages = sum(1 for o in (getattr(obs, "dag", None).nodes(data=True) if obs.get("dag") is not None else []) if o[1].get("op_name") == "rechunk")
            if nstages >= 2:
                cnt["multistage_rechunks"] += 1
            from ..traceinv import produced_arrays
            pa = produced_arrays(w)
            cnt["produced_arrays"] += len(pa)
            cnt["chunk_writes"] += sum(len(v) for v in pa.values())
            if any(len(v) >= 2 for v in pa.values()):
                cnt["nontrivial"] += 1
            for kind, text in found[:1]:
                probs.append((dict(op=case["op"], kind=kind), f"{case['op']} {case['params']} inputs={[(i['shape'], i['chunks']) for i in case['inputs']]} mem={case.get('_mem')}: {text}"))
        finally:
            if obs.get("world") is not None:
                obs.world.dispose()
    return cnt, probs


def replay_case(case):
    if case.get("op") == "program":
        from .c05_programs import eval_case as ev
        _, probs = ev(case, 0, "thorough")
    else:
        _, probs = eval_case(case, 0, "thorough")
    return [Problem(sig, case, d) for sig, d in probs]


def run(ctx):
    from ..programs import program_cases
    from ..storecases import store_cases
    from . import c05_programs
    tier = ctx.tier
    cs = list(cases(tier))
    if tier == "quick":
        cs = cs[::2]  # the catalogue is C01/C12's; here every second case (deterministic partition) plus the dedicated families
    fam = rechunk_family(tier)
    sc = list(store_cases(tier))
    total = sweep(ctx, __name__, cs + fam + sc)
    pc = list(program_cases(tier))
    total2 = sweep(ctx, c05_programs.__name__, pc, chunksize=20)
    t = total + total2
    ctx.set("evaluations", t["evaluations"])
    ctx.set("distinct_nontrivial", t["nontrivial"])
    ctx.set("computations_checked", t["checked"])
    ctx.set("produced_arrays", t["produced_arrays"])
    ctx.set("chunk_writes_attributed", t["chunk_writes"])
    ctx.set("multistage_rechunks", t["multistage_rechunks"])
    ctx.set("declined_or_error_not_judged_here", t["declined_or_error"])
    ctx.set("catalogue_cases", len(cs))
    ctx.set("rechunk_family_cases", len(fam))
    ctx.set("store_family_cases", len(sc))
    ctx.set("store_cases_refused_up_front", t["store_refused"])
    ctx.set("program_cases", len(pc))
    ctx.set("rule", "one computation per case on the controlled executor over a tracing store; distinct_nontrivial = computations in which some "
            "produced array received >= 2 chunk writes; per computation every produced array's set-keys are compared with its Zarr chunk grid")
    ctx.assumptions += ["attribution of store calls to tasks relies on tasks running one at a time in the controlled executor",
                        "zarr issues a get before a partial-chunk set (is_complete=False path) - this is how read-modify-write is observed"]
