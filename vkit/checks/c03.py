"""C03 - projected memory is a true upper bound on what every task allocates.

A monitor over an enumerated space: every operation of a list covering the
public API (and fused/unfused programs) x three large geometries (square,
skinny, uneven last chunk; chunks of 0.3-1 MB) x dtypes x compressor, and EVERY
task of every op of the executed plan: peak of tracemalloc-traced allocations
while the task runs <= the op's projected_mem (reserved_mem = 256 kB is cubed's
own allowance for non-data memory).  Each program runs once untraced first
(lazy imports, caches); a case within 3 % of the bound is measured again.
"""
from __future__ import annotations

import gc
import tracemalloc
from collections import Counter

import numpy as np

from ..cexec import ControlledExecutor
from ..common import Problem, perm
from ..tstore import World

PROPERTY = "C03"
LEVEL = "exploration"
RESERVED = 256_000
# tracemalloc also sees non-data interpreter memory (metadata objects, codec state, closures, ...), which the statement
# excludes.  cubed's reserved_mem (256 kB here) is the plan's own allowance for it; measured non-data memory of single
# tasks in this environment reaches ~300 kB (e.g. broadcast_to over 12 kB blocks: 60-250 kB above the projection, varying
# between two measurements of the same task), so a task counts as exceeding its projection only beyond a further 256 kB.
# One copy of the smallest float64 chunk used here (768 kB) is three times that.
NONDATA_SLACK = 256_000

N = 360
GEOMS = {
    "square": dict(shape=(3 * N, 2 * N), chunks=(N, N)),
    "skinny": dict(shape=(8000, 48), chunks=(2000, 48)),
    "uneven": dict(shape=(3 * N + 50, 2 * N + 30), chunks=(N, N)),
    # few rows, very long: a chunk reduced along axis 0 is as large as the input chunk
    "wide": dict(shape=(6, 150_000), chunks=(2, 50_000)),
}


def _xp():
    import cubed.array_api as xp
    return xp


def _cb():
    import cubed
    return cubed


OPS = {
    "negative": lambda a: _xp().negative(a),
    "add": lambda a: _xp().add(a, _xp().negative(a)),
    "where": lambda a: _xp().where(a > 5, _xp().negative(a), _xp().abs(a)),
    "astype-f4": lambda a: _xp().astype(a, _xp().float32),
    "sum-axis0": lambda a: _xp().sum(a, axis=0),
    "sum-all": lambda a: _xp().sum(a),
    "sum-int32": lambda a: _xp().sum(_xp().astype(a, _xp().int32), axis=0),
    "mean-axis1": lambda a: _xp().mean(a, axis=1),
    "var-axis0": lambda a: _xp().var(a, axis=0),
    "max": lambda a: _xp().max(a, axis=1),
    "prod": lambda a: _xp().prod(a, axis=0),
    "argmax": lambda a: _xp().argmax(a, axis=0),
    "nanmean": lambda a: _cb().nanmean(a, axis=0),
    "nansum": lambda a: _cb().nansum(a, axis=1),
    "cumsum-axis1": lambda a: _xp().cumulative_sum(a, axis=1),
    "cumsum-axis0": lambda a: _xp().cumulative_sum(a, axis=0),
    "transpose": lambda a: _xp().permute_dims(a, (1, 0)),
    "concat": lambda a: _xp().concat([a, a], axis=0),
    "stack": lambda a: _xp().stack([a, a], axis=0),
    "slice-offset": lambda a: a[7:, 5:],
    "slice-step": lambda a: a[::3, ::2],
    "slice-negstep": lambda a: a[::-1, :],
    "index-array": lambda a: a[np.arange(0, a.shape[0], 7), :],
    "flip": lambda a: _xp().flip(a, axis=0),
    "roll": lambda a: _xp().roll(a, 5, axis=0),
    "repeat": lambda a: _xp().repeat(a, 2, axis=0),
    "tile": lambda a: _xp().tile(a, (2, 1)),
    "reshape": lambda a: _xp().reshape(a, (a.shape[0] * a.shape[1],)),
    "expand-broadcast": lambda a: _xp().add(a, a[0:1, :]),
    "broadcast_to": lambda a: _xp().broadcast_to(a[0, :], a.shape),
    "rechunk": lambda a: a.rechunk((a.chunksize[0] // 2, a.shape[1])),
    "matmul": lambda a: _xp().matmul(a, _xp().permute_dims(a, (1, 0))),
    "tensordot": lambda a: _xp().tensordot(a, a, axes=((0,), (0,))),
    "outer": lambda a: _xp().linalg.outer(a[:, 0], a[0, :]),
    "qr": lambda a: tuple(_xp().linalg.qr(a[:, : min(a.shape[1], a.chunksize[0] // 4)].rechunk((a.chunksize[0], min(a.shape[1], a.chunksize[0] // 4))))),
    "tril": lambda a: _xp().tril(a),
    "pad": lambda a: _cb().pad(a, ((1, 2), (0, 0)), mode="constant"),
    "map_blocks": lambda a: _cb().map_blocks(lambda x, block_id=None: x * 2 + block_id[0], a, dtype=a.dtype),
    "map_overlap": lambda a: _cb().map_overlap(lambda x: x[1:-1, :], a, dtype=a.dtype, chunks=a.chunks, depth={0: 1}, boundary={0: 0.0}),
    "diff": lambda a: _xp().diff(a, axis=0),
    "unstack": lambda a: tuple(_xp().unstack(_xp().stack([a, a], axis=0), axis=0)),
    "searchsorted": lambda a: _xp().searchsorted(a[:, 0], a[:, 1]),
    "clip": lambda a: _xp().clip(a, 3.0, 100.0),
    "isin": lambda a: _xp().isin(a, a[0, :8]),
    "chain5-fusable": lambda a: _xp().sqrt(_xp().abs(_xp().add(_xp().multiply(_xp().negative(a), a), a))),
    "diamond-fusable": lambda a: _xp().add(_xp().negative(a), _xp().abs(a)),
    "fan-in3": lambda a: _xp().add(_xp().add(_xp().negative(a), _xp().abs(a)), _xp().square(a)),
    "reduce-of-chain": lambda a: _xp().sum(_xp().multiply(_xp().negative(a), a), axis=0),
    "mean-axis0": lambda a: _xp().mean(a, axis=0),
    "sum-axis0-keepdims": lambda a: _xp().sum(a, axis=0, keepdims=True),
    "argmax-axis1": lambda a: _xp().argmax(a, axis=1),
    "repeated-heavy-pred": lambda a, b: (lambda y: _xp().multiply(y, y))(_xp().add(a, b)),
    "repeated-heavy-pred-3": lambda a, b: (lambda y: _xp().add(_xp().multiply(y, y), y))(_xp().subtract(a, b)),
    "slice-step-offset": lambda a: a[::2, 10:],
    # linear chains whose first operation is the heavy one (for the legacy optimizer's two-op fusion)
    "negative-of-repeat": lambda a: _xp().negative(_xp().repeat(a, 4, axis=0)),
    "abs-of-widening": lambda a: _xp().abs(_xp().astype(_xp().astype(a, _xp().float32), _xp().float64)),
    "store": "store",
    "random": "random",
}
QUICK = ["negative", "add", "where", "sum-axis0", "mean-axis1", "var-axis0", "argmax", "cumsum-axis1", "transpose", "concat", "stack", "slice-step",
         "index-array", "roll", "repeat", "reshape", "rechunk", "matmul", "qr", "map_blocks", "chain5-fusable", "diamond-fusable", "fan-in3",
         "reduce-of-chain", "tril", "pad", "unstack", "store", "mean-axis0", "repeated-heavy-pred", "repeated-heavy-pred-3", "argmax-axis1", "slice-step-offset",
         "negative-of-repeat"]
LOCAL_STORE_CASES = [("negative", "square", True), ("add", "square", True), ("sum-axis0", "square", True), ("transpose", "square", True), ("rechunk", "square", True),
                     ("concat", "square", True), ("stack", "square", False), ("chain5-fusable", "square", True), ("reshape", "square", True), ("cumsum-axis1", "square", True),
                     ("argmax", "square", True), ("argmax-axis1", "square", True), ("roll", "square", True), ("slice-step", "skinny", True), ("slice-step", "skinny", False),
                     ("index-array", "square", True), ("index-array", "square", False)]
# operations also measured under the legacy optimizer (optimize_function=simple_optimize_dag): optimize = "legacy"
LEGACY = ["negative", "chain5-fusable", "negative-of-repeat", "abs-of-widening", "astype-f4"]


def measure(item):
    name, geom, dtype, comp, optimize = item[:5]
    store_kind = item[5] if len(item) > 5 else "memory"
    import cubed
    import cubed.random
    import zarr

    g = GEOMS[geom]
    shape, chunks = g["shape"], g["chunks"]
    cnt = Counter()
    rows = []
    probs = []
    w = World()
    import os as _os, tempfile as _tf, shutil as _sh
    LOCAL = store_kind == "local"
    tmpd = _tf.mkdtemp(prefix="vkit-c03-") if LOCAL else None

    def mkstore(label):
        if LOCAL:
            from zarr.storage import LocalStore
            return LocalStore(_os.path.join(tmpd, label))
        return w.store(label)
    try:
        src = mkstore("src")
        za = zarr.create_array(src, shape=shape, dtype=dtype, chunks=chunks, compressors=None)
        data = (np.arange(int(np.prod(shape)), dtype="f8").reshape(shape) % 977 + 1).astype(dtype)
        za[:] = data
        src2 = mkstore("src2")
        zb = zarr.create_array(src2, shape=shape, dtype=dtype, chunks=chunks, compressors=None)
        zb[:] = data[::-1]
        del data

        def run(traced):
            inter = mkstore(f"inter{int(traced)}")
            spec = cubed.Spec(intermediate_store=inter, allowed_mem="2GB", reserved_mem=RESERVED, zarr_compressor=comp)
            a = cubed.from_zarr(src, spec=spec)
            if OPS[name] == "store":
                tgt = mkstore(f"tgt{int(traced)}")
                out = cubed.store([_xp().negative(a)], [tgt], compute=False)
            elif OPS[name] == "random":
                out = (cubed.random.random(shape, chunks=chunks, spec=spec),)
            else:
                import inspect
                if len(inspect.signature(OPS[name]).parameters) == 2:
                    out = OPS[name](a, cubed.from_zarr(src2, spec=spec))
                else:
                    out = OPS[name](a)
                out = out if isinstance(out, tuple) else (out,)
            recs = []

            def wrapper(opname, i, body):
                if not traced:
                    return body()
                gc.collect()
                tracemalloc.start()
                base = tracemalloc.get_traced_memory()[0]
                try:
                    body()
                finally:
                    cur, peak = tracemalloc.get_traced_memory()
                    tracemalloc.stop()
                recs.append((opname, i, peak - base))

            ex = ControlledExecutor(world=w, task_wrapper=wrapper)
            okw = {}
            if optimize == "legacy":
                from cubed.core.optimization import simple_optimize_dag
                okw = dict(optimize_function=simple_optimize_dag)
            cubed.compute(*out, executor=ex, optimize_graph=bool(optimize), _return_in_memory_array=False, **okw)
            proj = {o.name: o.node["primitive_op"].projected_mem for o in ex.ops}
            kinds = {o.name: o.node.get("op_name") for o in ex.ops}
            if LOCAL:
                _sh.rmtree(_os.path.join(tmpd, f"inter{int(traced)}"), ignore_errors=True)
            else:
                inter._store_dict.clear()
            return recs, proj, kinds

        try:
            run(False)
            recs, proj, kinds = run(True)
        except Exception as e:
            cnt["declined"] += 1
            return cnt, probs, rows, (name, geom, f"{type(e).__name__}: {str(e)[:100]}")
        worst = None
        for opname, i, peak in recs:
            cnt["tasks"] += 1
            p = proj[opname]
            ratio = peak / p
            if worst is None or ratio > worst[0]:
                worst = (ratio, opname, kinds[opname], i, peak, p)
            if peak > 0.97 * p:
                cnt["near_bound"] += 1
        if worst and worst[0] > 0.97:
            # measure again: must agree before it counts
            recs2, proj2, kinds2 = run(True)
            w2 = max((pk / proj2[o], o, kinds2[o], i, pk, proj2[o]) for o, i, pk in recs2)
            cnt["remeasured"] += 1
            first = worst
            if w2[0] < worst[0]:
                worst = w2  # the confirmed (reproducible) figure is the smaller of the two measurements
            if w2[4] > w2[5] + NONDATA_SLACK and first[4] > first[5] + NONDATA_SLACK:
                sig = dict(kind="task-exceeds-projected-mem", op=name, cubed_op=str(worst[2]), optimize=optimize)
                case = dict(name=name, geom=geom, dtype=dtype, compressor=comp, optimize=optimize)
                if LOCAL:
                    sig.update(store="local", local_case=f"{name}/{geom}/{'optimized' if optimize else 'unoptimized'}")
                    case["store"] = "local"
                probs.append((sig, case,
                              f"{name} [{geom} {shape}/{chunks} {dtype} compressor={comp} optimize={optimize}{' store=LocalStore' if LOCAL else ''}]: task {worst[3]} of op {worst[2]} "
                              f"allocated {worst[4]} bytes (again: {w2[4]}), projected_mem is {worst[5]} (ratio {worst[0]:.3f})"))
        cnt["computations"] += 1
        if LOCAL:
            cnt["local_store_computations"] += 1
        rows.append(dict(op=name, geom=geom, dtype=dtype, compressor=comp, optimize=optimize, store=store_kind, tasks=len(recs),
                         worst_ratio=round(worst[0], 3) if worst else None, worst_op=str(worst[2]) if worst else None))
        return cnt, probs, rows, None
    finally:
        w.dispose()
        if tmpd:
            _sh.rmtree(tmpd, ignore_errors=True)


def replay_case(case):
    cnt, probs, rows, _ = measure((case["name"], case["geom"], case["dtype"], case["compressor"], case["optimize"], case.get("store", "memory")))
    return [Problem(sig, c, d) for sig, c, d in probs]


def run(ctx):
    tier = ctx.tier
    names = QUICK if tier == "quick" else list(OPS)
    items = []
    for n in names:
        for geom in GEOMS:
            for opt in (True, False) + (("legacy",) if n in LEGACY else ()):
                items.append((n, geom, "float64", "auto", opt))
            if geom == "wide" and n in ("mean-axis0", "var-axis0", "sum-axis0", "argmax", "sum-int32", "nanmean"):
                items.append((n, geom, "float32", "auto", False))
                items.append((n, geom, "int8", "auto", False))
            if tier == "thorough":
                items.append((n, geom, "float64", None, True))
                items.append((n, geom, "float32", "auto", True))
                items.append((n, geom, "int32", "auto", True))
    # a file-backed store allocates a buffer for every chunk it reads (the in-memory store hands out the stored bytes):
    # a fixed set of computations is measured over zarr's LocalStore as well
    for n, geom, opt in LOCAL_STORE_CASES:
        items.append((n, geom, "float64", "auto", opt, "local"))
    tot = Counter()
    table = []
    declined = []
    import os
    os.environ.setdefault("VERIF_WORKERS", "16")
    for cnt, probs, rows, decl in ctx.pmap(measure, perm(items, ctx.seed)):
        tot.update(cnt)
        table += rows
        if decl:
            declined.append(decl)
        for sig, case, text in probs:
            ctx.problem(sig, case, text)
    if tot["computations"] < len(items) // 2:
        from ..common import HarnessError
        raise HarnessError(f"only {tot['computations']} of {len(items)} computations could be measured: {declined[:3]}")
    table.sort(key=lambda r: -(r["worst_ratio"] or 0))
    ctx.set("evaluations", tot["tasks"])
    ctx.set("distinct_nontrivial", tot["computations"])
    ctx.set("computations", tot["computations"])
    ctx.set("tasks_measured", tot["tasks"])
    ctx.set("tasks_within_3pct_of_bound", tot["near_bound"])
    ctx.set("computations_remeasured", tot["remeasured"])
    ctx.set("computations_over_local_store", tot["local_store_computations"])
    ctx.set("declined", declined[:20])
    ctx.set("tightest", table[:12])
    ctx.set("rule", "computation = operation x geometry x dtype x compressor x optimize; every task of every op of its executed plan is measured; "
            "distinct_nontrivial = computations measured (each has >= 4 tasks on chunks of 0.3-1 MB)")
    ctx.sample(dict(op="matmul", geometry=GEOMS["square"], dtype="float64", compressor="auto", optimize=True))
    ctx.set("nondata_slack_bytes", NONDATA_SLACK)
    ctx.assumptions += ["tracemalloc sees Python/NumPy buffers, not native codec scratch memory",
                        "a task exceeds its projection only if both measurements are more than 256 kB above projected_mem (non-data interpreter memory beyond reserved_mem)",
                        "reserved_mem=256 kB is the allowance for non-data interpreter memory (cubed's own contract)",
                        "this is a monitor over an enumerated finite space, the weakest fit to the technique family; memory is checked at MB scale, not proved for all sizes"]
