"""C11 - store/to_zarr fill every target completely, and only inside the requested region.

Every store scenario of storecases (sources x targets x regions x eager/lazy x
call shapes) is run on the controlled executor and on the virtual executor in
overlay mode (extremal latency) with completion orders oldest-first and
newest-first; targets are read back with plain zarr and compared with NumPy
inside the region and with the sentinel outside.  If the call raises, nothing
may have been written to any target.
"""
from __future__ import annotations

from collections import Counter

import numpy as np

from ..cexec import ControlledExecutor
from ..common import Problem
from ..explore import Chooser
from ..runcase import make_spec
from ..scope import mkdata
from ..storecases import SENTINEL, store_cases
from ..sweep import sweep
from ..traceinv import single_writer
from ..tstore import World, is_chunk_key
from ..vexec import VirtualExecutor

PROPERTY = "C11"
LEVEL = "exploration"
EXPLICIT = {"ValueError", "TypeError", "NotImplementedError", "IndexError"}


def build_source(kind, V, chunks, spec):
    import cubed.array_api as xp

    if kind == "mem":
        return xp.asarray(V, chunks=chunks, spec=spec)
    if kind == "lazy":
        return xp.negative(xp.asarray(-V, chunks=chunks, spec=spec))
    if kind == "rechunked":
        other = tuple(max(1, c - 1) if c > 1 else min(n, 2) for c, n in zip(chunks, V.shape))
        return xp.asarray(V, chunks=other, spec=spec).rechunk(chunks)
    if kind == "fused":
        return xp.negative(xp.negative(xp.asarray(V, chunks=chunks, spec=spec)))
    if kind == "multi":
        U = np.stack([V, V + 1000.0])
        return xp.unstack(xp.asarray(U, chunks=(1,) + tuple(chunks), spec=spec), axis=0)[0]
    raise KeyError(kind)


def make_target(world, k, pair, shape):
    import zarr

    st = world.store(f"tgt{k}")
    if pair["target"] == "new":
        return st, st, None, np.full(shape, np.nan), None
    tshape = tuple(pair["tshape"])
    kw = {}
    if pair["target"] == "sharded":
        kw["shards"] = tuple(pair["shards"])
    za = zarr.create_array(st, shape=tshape, dtype="f8", chunks=tuple(pair["tchunks"]), fill_value=0.0, **kw)
    za[...] = SENTINEL
    return st, za, None, np.full(tshape, SENTINEL), za


def region_of(pair):
    r = pair.get("region")
    if r is None:
        return None
    return tuple(slice(a, b) for a, b in r)


def expected_region_keys(pair, label):
    """chunk keys of the target that intersect the region (for the C05 coverage oracle)"""
    import itertools
    tshape = pair["tshape"]
    outer = pair.get("shards") or pair["tchunks"]
    rng = []
    for (a, b), n, c in zip(pair["region"], tshape, outer):
        a = 0 if a is None else a
        b = n if b is None else b
        rng.append(range(a // c, -(-b // c)))
    return {"c/" + "/".join(map(str, idx)) for idx in itertools.product(*rng)}


def run_store(case, seed, executor_kind, order="oldest"):
    """returns dict(exc, targets=[(expected, actual)], world, mark, ex)"""
    import cubed
    import zarr

    world = World()
    spec = make_spec(world)
    shape = tuple(case["shape"])
    chunks = tuple(case["src_chunks"])
    npairs = len(case["pairs"])
    same = case["call"] == "same-source-twice"
    srcs, vals = [], []
    for k in range(npairs):
        if same and k > 0:
            srcs.append(srcs[0])
            vals.append(vals[0])
            continue
        V = mkdata(shape, "float64", k, seed)
        vals.append(V)
        srcs.append(build_source(case["source"], V, chunks, spec))
    targets, expected, stores, zas = [], [], [], []
    for k, pair in enumerate(case["pairs"]):
        st, tgt, _, exp, za = make_target(world, k, pair, shape)
        reg = region_of(pair)
        try:
            if reg is None:
                if exp.shape == vals[k].shape:
                    exp = vals[k].copy()
                else:
                    exp = None  # shape mismatch without region: must be refused
            else:
                sub = exp[reg]
                if sub.shape == vals[k].shape:
                    exp[reg] = vals[k]
                else:
                    exp = None
        except Exception:
            exp = None
        targets.append(tgt)
        expected.append(exp)
        stores.append(st)
        zas.append(za)
    regions = [region_of(p) for p in case["pairs"]]
    if executor_kind == "controlled":
        ex = ControlledExecutor(world=world)
    else:
        class Order:
            def choose(self, k, label="", fp=None):
                return 0 if order == "oldest" else k - 1
        ex = VirtualExecutor(world, chooser=Order(), overlay=True, parallel=(executor_kind == "virtual-parallel"))
    mark = world.mark()
    exc = None
    phase = None
    try:
        api = case["api"]
        if api == "store":
            if npairs == 1:
                r = cubed.store(srcs[0], targets[0], regions=regions[0], compute=not case["lazy"], executor=ex)
            else:
                regs = regions if any(x is not None for x in regions) else None
                r = cubed.store(srcs, targets, regions=regs, compute=not case["lazy"], executor=ex)
        else:
            path = "grp/arr" if api == "to_zarr_group" else None
            r = cubed.to_zarr(srcs[0], targets[0], path=path, region=regions[0], compute=not case["lazy"], executor=ex)
            r = (r,) if r is not None and not isinstance(r, tuple) else r
        if case["lazy"]:
            cubed.compute(*r, executor=ex)
    except Exception as e:
        exc = e
        phase = "EXEC" if getattr(ex, "entered", False) else "BUILD"
    actual = []
    for k, (st, pair) in enumerate(zip(stores, case["pairs"])):
        path = "grp/arr" if case["api"] == "to_zarr_group" else None
        try:
            actual.append(np.asarray(zarr.open_array(st.with_read_only(True), path=path, mode="r")[...]))
        except Exception as e:
            actual.append(None)
    return dict(exc=exc, phase=phase, expected=expected, actual=actual, world=world, mark=mark, ex=ex, stores=stores)


def sig_of(case, kind):
    p = case["pairs"]
    differ = any(q.get("tchunks") is not None and list(q["tchunks"]) != list(case["src_chunks"]) and q["target"] == "array" for q in p)
    return dict(op="store", kind=kind, call=case["call"], source_is_lazy=case["source"] != "mem",
                target_chunks_differ=differ, region=any(q.get("region") is not None for q in p),
                sharded=any(q["target"] == "sharded" for q in p))


def describe(case):
    return (f"store source={case['source']} shape={case['shape']} chunks={case['src_chunks']} api={case['api']} lazy={case['lazy']} "
            f"call={case['call']} pairs={[{k: v for k, v in q.items()} for q in case['pairs']]}")


def judge_values(case, r, execname):
    probs = []
    w = r["world"]
    tgt_labels = {s.label for s in r["stores"]}
    if r["exc"] is not None:
        e = r["exc"]
        wrote = [ev for ev in w.events(r["mark"]) if ev.store in tgt_labels and ev.op in ("set", "delete")]
        if wrote:
            probs.append(("partial-write-before-error", f"{type(e).__name__}: {str(e)[:120]} raised after {len(wrote)} writes (metadata or chunks) to targets, first {wrote[0]}"))
        elif type(e).__name__ not in EXPLICIT and not (set(c.__name__ for c in type(e).__mro__) & EXPLICIT):
            probs.append(("incidental-exception", f"{type(e).__name__}: {str(e)[:160]}"))
        elif all(x is not None for x in r["expected"]) and r["phase"] == "EXEC":
            probs.append(("failed-mid-run", f"{type(e).__name__}: {str(e)[:160]} raised during execution of a writable request"))
        return probs
    for k, (exp, act) in enumerate(zip(r["expected"], r["actual"])):
        if exp is None:
            probs.append(("unsafe-request-accepted", f"target {k}: region/shape cannot hold the source but the call succeeded"))
            continue
        if act is None:
            probs.append(("target-missing", f"target {k}: no readable array after the call"))
            continue
        if act.shape != exp.shape or not np.array_equal(act, exp, equal_nan=True):
            nbad = int((~np.isclose(act, exp, equal_nan=True)).sum()) if act.shape == exp.shape else -1
            sent = int((act == SENTINEL).sum()) if act.shape == exp.shape else -1
            probs.append(("target-content", f"target {k} differs from expectation in {nbad} elements under {execname}; "
                                            f"actual={act.tolist()} expected={exp.tolist()}"))
    return probs


def eval_store_case(case, seed, tier, judge="values"):
    cnt = Counter()
    probs = []
    if judge == "writers":
        r = run_store(case, seed, "controlled")
        try:
            cnt["evaluations"] += 1
            if r["exc"] is not None:
                cnt["store_refused"] += 1
                cnt["declined_or_error"] += 1
                return cnt, probs
            cnt["checked"] += 1
            cnt["nontrivial"] += 1
            regions = {}
            for st, pair in zip(r["stores"], case["pairs"]):
                if pair.get("region") is not None:
                    regions[(st.label, "")] = expected_region_keys(pair, st.label)
            found = single_writer(r["world"], r["mark"], regions)
            for kind, text in found[:1]:
                probs.append((sig_of(case, kind), f"{describe(case)}: {text}"))
        finally:
            r["world"].dispose()
        return cnt, probs
    execs = [("controlled", "oldest"), ("virtual", "oldest"), ("virtual", "newest")]
    if tier == "thorough":
        execs.append(("virtual-parallel", "newest"))
    for ek, order in execs:
        r = run_store(case, seed, ek, order)
        try:
            cnt["evaluations"] += 1
            if r["exc"] is not None:
                cnt["refused"] += 1
            else:
                cnt["accepted"] += 1
            cnt["nontrivial"] += 1 if ek == "controlled" else 0
            found = judge_values(case, r, f"{ek}/{order}")
            for kind, text in found[:1]:
                probs.append((sig_of(case, kind), f"{describe(case)}: {text}"))
            if found:
                break
        finally:
            r["world"].dispose()
    return cnt, probs


def eval_case(case, seed, tier):
    return eval_store_case(case, seed, tier, "values")


def replay_case(case):
    _, probs = eval_case(case, 0, "thorough")
    return [Problem(sig, case, d) for sig, d in probs]


def run(ctx):
    sc = list(store_cases(ctx.tier))
    total = sweep(ctx, __name__, sc, chunksize=20)
    ctx.set("evaluations", total["evaluations"])
    ctx.set("distinct_nontrivial", total["nontrivial"])
    ctx.set("store_scenarios", len(sc))
    ctx.set("accepted_runs", total["accepted"])
    ctx.set("refused_runs", total["refused"])
    ctx.set("rule", "scenario = source kind x shape x source chunks x target kind/chunking/shards x region x eager|lazy x call shape; each run on the "
            "controlled executor and on the virtual executor in overlay mode with oldest-first and newest-first completion; "
            "distinct_nontrivial = distinct scenarios")
    ctx.assumptions += ["overlay store: a task's writes become visible when the harness completes it; reads are served at submission (extremal latency)"]
