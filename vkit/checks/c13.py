"""C13 - plan task counts match execution; callbacks see each event exactly once, in order.

Programs (multi-output, region store, multi-stage rechunk, fused/unfused
chains, reductions, create-arrays only) x optimize x compute_arrays_in_parallel
x batch_size, on the real single-threaded and threads executors (one run each)
and on the real async_map_dag under the virtual loop with every completion
order within the deviation bound.  A recording Callback checks counts and
ordering of events against FinalizedPlan.
"""
from __future__ import annotations

from collections import Counter

import numpy as np

from ..common import HarnessError, Problem, perm
from ..explore import Chooser, explore
from ..programs import Builder
from ..runcase import make_spec
from ..tstore import World
from ..vexec import VirtualExecutor
from ..vloop import seam_selftest
from .c07 import DAGS, FpChooser

PROPERTY = "C13"
LEVEL = "exploration"

EXTRA = {
    "qr": "qr",
    "region-store": "region-store",
    "region-store-edge": "region-store-edge",
    "region-store-2d-edge": "region-store-2d-edge",
    "create-only": "create-only",
    "rechunk-3stage": "rechunk-3stage",
}
QUICK = ["diamond", "multi-output", "rechunk-2stage", "store-target", "reduction-tree", "qr", "region-store", "region-store-edge", "region-store-2d-edge", "create-only"]


def build(name, spec, world, seed):
    """returns (list of arrays to compute, description)"""
    import cubed
    import cubed.array_api as xp
    import zarr
    from ..scope import mkdata

    if name in DAGS:
        d = DAGS[name]
        b = Builder(spec, world, seed)
        arrs = [b.build(t)[0] for t in d["terms"]]
        if d.get("store"):
            arrs = list(cubed.store(arrs, [world.store("tgt")], compute=False))
        return arrs
    if name == "qr":
        a = xp.asarray(mkdata((8, 2), "float64", 0, seed, "frac"), chunks=(2, 2), spec=spec)
        return list(xp.linalg.qr(a))
    if name == "region-store":
        a = xp.negative(xp.asarray(mkdata((4,), "float64", 0, seed), chunks=(2,), spec=spec))
        st = world.store("tgt")
        za = zarr.create_array(st, shape=(8,), dtype="f8", chunks=(2,))
        za[...] = 0.0
        return list(cubed.store([a], [za], regions=[(slice(2, 6),)], compute=False))
    if name == "region-store-edge":
        # the region ends at the array edge in a partial chunk and spans two chunks
        a = xp.negative(xp.asarray(mkdata((3,), "float64", 0, seed), chunks=(2,), spec=spec))
        st = world.store("tgt")
        za = zarr.create_array(st, shape=(5,), dtype="f8", chunks=(2,))
        za[...] = 0.0
        return list(cubed.store([a], [za], regions=[(slice(2, 5),)], compute=False))
    if name == "region-store-2d-edge":
        a = xp.negative(xp.asarray(mkdata((3, 5), "float64", 0, seed), chunks=(2, 2), spec=spec))
        st = world.store("tgt")
        za = zarr.create_array(st, shape=(5, 5), dtype="f8", chunks=(2, 2))
        za[...] = 0.0
        return list(cubed.store([a], [za], regions=[(slice(2, 5), slice(0, 5))], compute=False))
    if name == "create-only":
        return [xp.asarray(mkdata((4,), "float64", 0, seed), chunks=(2,), spec=spec)]
    if name == "rechunk-3stage":
        a = xp.asarray(mkdata((8, 8), "float64", 0, seed), chunks=(1, 8), spec=spec)
        return [a.rechunk((8, 1))]
    raise KeyError(name)


class Recorder:
    """a cubed Callback (created lazily so that importing this module does not import cubed)"""

    def __new__(cls):
        from cubed.runtime.types import Callback

        class _Rec(Callback):
            def __init__(self):
                self.events = []
                self.plan = None

            def on_compute_start(self, event):
                self.events.append(("compute-start",))
                self.plan = getattr(event, "plan", None)
                self.dag = event.dag

            def on_compute_end(self, event):
                self.events.append(("compute-end",))

            def on_operation_start(self, event):
                self.events.append(("op-start", event.name))

            def on_operation_end(self, event):
                self.events.append(("op-end", event.name))

            def on_task_end(self, event):
                self.events.append(("task-end", event.name, event.num_tasks))

        return _Rec()


def judge(rec, executed=None):
    """executed: {op: number of task bodies run} when the executor can tell"""
    from cubed.runtime.pipeline import visit_nodes

    probs = []
    ev = rec.events
    if not ev or ev[0] != ("compute-start",) or sum(1 for e in ev if e[0] == "compute-start") != 1:
        probs.append(("compute-events", f"compute-start not exactly once and first: {ev[:3]}"))
    if not ev or ev[-1] != ("compute-end",) or sum(1 for e in ev if e[0] == "compute-end") != 1:
        probs.append(("compute-events", f"compute-end not exactly once and last: {ev[-3:]}"))
    plan = rec.plan
    if plan is None:
        probs.append(("no-plan", "compute-start event carried no plan"))
        return probs
    total = 0
    ops = list(visit_nodes(rec.dag))
    for name, node in ops:
        adv = node["primitive_op"].num_tasks
        ml = len(list(node["pipeline"].mappable))
        total += adv
        te = sum(e[2] for e in ev if e[0] == "task-end" and e[1] == name)
        starts = [i for i, e in enumerate(ev) if e == ("op-start", name)]
        ends = [i for i, e in enumerate(ev) if e == ("op-end", name)]
        tidx = [i for i, e in enumerate(ev) if e[0] == "task-end" and e[1] == name]
        if adv != ml:
            probs.append(("advertised-vs-mappable", f"op {name}: primitive_op.num_tasks={adv} but the task iterable has {ml} items"))
        if te != adv:
            probs.append(("task-end-count", f"op {name}: {te} task-end notifications, advertised {adv}"))
        if executed is not None and executed.get(name, 0) != adv:
            probs.append(("executed-count", f"op {name}: executor ran {executed.get(name, 0)} tasks, advertised {adv}"))
        if len(starts) != 1 or len(ends) != 1:
            probs.append(("op-events", f"op {name}: {len(starts)} start and {len(ends)} end notifications"))
        elif tidx and (starts[0] > min(tidx) or ends[0] < max(tidx)):
            probs.append(("op-event-order", f"op {name}: start/end not around its task notifications"))
        elif starts and ends and starts[0] > ends[0]:
            probs.append(("op-event-order", f"op {name}: end before start"))
    known = {n for n, _ in ops}
    stray = sorted({e[1] for e in ev if len(e) > 1 and e[1] not in known})
    if stray:
        probs.append(("stray-events", f"events for operations not in the plan: {stray}"))
    if plan.num_tasks != total:
        probs.append(("plan-total", f"FinalizedPlan.num_tasks={plan.num_tasks} but per-op advertised counts sum to {total}"))
    return probs


def run_once(cfg, chooser, seed=0, executor=None, fp=False):
    import cubed

    world = World()
    try:
        kw = {}
        if cfg["dag"] in ("rechunk-2stage",):
            kw["allowed_mem"] = 1200
        if cfg["dag"] == "rechunk-3stage":
            kw["allowed_mem"] = 8 * 8 * 6 + 200
        spec = make_spec(world, **kw)
        arrs = build(cfg["dag"], spec, world, seed)
        rec = Recorder()
        extra = {}
        if executor is None:
            ex = VirtualExecutor(world, chooser=chooser, overlay=False, parallel=cfg["parallel"], batch_size=cfg["batch_size"], real_futures=cfg.get("futures"))
            if fp:
                ex.chooser = FpChooser(chooser, [ex])
        else:
            from cubed.runtime.create import create_executor
            ex = create_executor(executor)
            extra = dict(compute_arrays_in_parallel=cfg["parallel"])
            if cfg["batch_size"]:
                extra["batch_size"] = cfg["batch_size"]
            if executor == "single-threaded":
                extra = {}
        err = None
        try:
            cubed.compute(*arrs, executor=ex, optimize_graph=cfg["optimize"], callbacks=[rec], **extra)
        except HarnessError:
            raise
        except Exception as e:
            import re as _re
            err = _re.sub(r"\b(array|op)-\d+", r"\1-N", f"{type(e).__name__}: {str(e)[:200]}")
        if err:
            return dict(probs=[("execution-error", err)], events=0, order=())
        executed = None
        if executor is None:
            executed = Counter(n for n, _ in ex.completed)
        canon = getattr(ex, "canon", str)
        probs = [(k, canon(t)) for k, t in judge(rec, executed)]
        order = tuple(canon(e) for e in rec.events)
        nops = sum(1 for e in rec.events if e[0] == "op-start")
        return dict(probs=probs, events=len(rec.events), order=order, nops=nops, ntasks=sum(e[2] for e in rec.events if e[0] == "task-end"))
    finally:
        world.dispose()


def explore_cfg(item):
    cfg, max_dev, limit, seed = item
    orders = set()
    mx = Counter()

    def run(ch):
        return run_once(cfg, ch, seed, fp=True)

    def on_exec(obs, ch):
        orders.add(hash(obs["order"]))
        mx["ops"] = max(mx["ops"], obs.get("nops", 0))
        mx["tasks"] = max(mx["tasks"], obs.get("ntasks", 0))

    st = explore(run, lambda obs, tr: obs["probs"], max_dev, prune=True, limit=limit, on_exec=on_exec)
    probs = []
    seen = set()
    for trace, (kind, text) in sorted(st["problems"], key=lambda tp: (sum(1 for c in tp[0] if c), len(tp[0]))):
        if kind in seen:
            continue
        seen.add(kind)
        o1 = run_once(cfg, Chooser(trace, 10**9, None), seed)
        o2 = run_once(cfg, Chooser(trace, 10**9, None), seed)
        if o1["probs"] != o2["probs"] or o1["order"] != o2["order"]:
            raise HarnessError(f"replay divergence cfg={cfg} trace={trace}")
        probs.append(dict(kind=kind, text=text, trace=trace))
    st.pop("problems")
    st.update(cfg=cfg, orders=len(orders), probs=probs, **mx)
    return st


def callback_history(executor_name):
    """Histories of compute calls that share callback objects: a callback registered through the context manager plus an
    explicit callbacks list reused for several computes.  In EVERY compute each callback must see each event exactly once."""
    import cubed
    import cubed.array_api as xp
    from cubed.runtime.create import create_executor
    from ..scope import mkdata

    probs = []
    for reuse_list in (True, False):
        for with_ctx in (True, False):
            w = World()
            try:
                spec = make_spec(w)
                ex = create_executor(executor_name)
                ctx_cb, list_cb = Recorder(), Recorder()
                shared = [list_cb]
                arrays = [xp.negative(xp.asarray(mkdata((4,), "float64", k, 0), chunks=(2,), spec=spec)) for k in range(3)]

                def one(i, inside):
                    cbs = shared if reuse_list else [list_cb]
                    before = (len(ctx_cb.events), len(list_cb.events))
                    arrays[i].compute(executor=ex, callbacks=cbs)
                    for nm, rec, b, expect in (("context-manager callback", ctx_cb, before[0], inside), ("explicit callback", list_cb, before[1], True)):
                        new = rec.events[b:]
                        sub = type("R", (), {})()
                        sub.events, sub.plan, sub.dag = new, rec.plan, getattr(rec, "dag", None)
                        if not expect:
                            if new:
                                probs.append(("callback-after-unregister", f"{nm} received {len(new)} events in compute #{i + 1} although it is not registered (reuse_list={reuse_list})"))
                            continue
                        for k, t in judge(sub):
                            probs.append((k, f"compute #{i + 1} of a history sharing callbacks (reuse_list={reuse_list}, context manager={with_ctx}): {nm}: {t}"))

                if with_ctx:
                    with ctx_cb:
                        one(0, True)
                        one(1, True)
                    one(2, False)
                else:
                    one(0, False)
                    one(1, False)
                    one(2, False)
            finally:
                w.dispose()
    seen = set()
    out = []
    for k, t in probs:
        if k not in seen:
            seen.add(k)
            out.append((k, t))
    return executor_name, out


def real_run(item):
    cfg, e = item
    return cfg, e, run_once(cfg, None, 0, executor=e)


def sig(cfg, kind):
    return dict(kind=kind, dag=cfg["dag"], parallel=cfg["parallel"], batching=cfg["batch_size"] is not None, optimize=cfg["optimize"], futures=cfg.get("futures"))


def replay_case(case):
    if case.get("history"):
        _, ps = callback_history(case["executor"])
        return [Problem(dict(kind=k, history="shared-callbacks", executor=case["executor"]), case, t) for k, t in ps]
    if case.get("executor"):
        obs = run_once(case["cfg"], None, 0, executor=case["executor"])
    else:
        obs = run_once(case["cfg"], Chooser(case["trace"], 10**9, None), case.get("seed", 0))
    return [Problem(sig(case["cfg"], k), case, t) for k, t in obs["probs"]]


def run(ctx):
    seam_selftest()
    tier = ctx.tier
    names = QUICK if tier == "quick" else list(DAGS) + list(EXTRA)
    cfgs = [dict(dag=d, optimize=o, parallel=p, batch_size=bs) for d in names for o in (True, False) for p in (False, True) for bs in (None, 1, 2)]
    fnames = [d for d in names if d in ("diamond", "multi-output", "reduction-tree", "region-store-edge")] if tier == "quick" else names
    cfgs += [dict(dag=d, optimize=False, parallel=p, batch_size=bs, futures=f) for d in fnames for f in ("threads", "processes") for p in (False, True)
             for bs in ((2,) if tier == "quick" else (None, 2))]
    max_dev = 2 if tier == "quick" else 3
    limit = 1500 if tier == "quick" else 20000
    res = ctx.pmap(explore_cfg, perm([(c, max_dev, limit, ctx.seed) for c in cfgs], ctx.seed))
    execs = orders = 0
    per = []
    for st in res:
        execs += st["executions"]
        orders += st["orders"]
        if st["capped"]:
            ctx.capped = f"execution limit {limit} hit (cfg {st['cfg']})"
        per.append(dict(cfg=st["cfg"], executions=st["executions"], distinct_event_orders=st["orders"], ops=st["ops"], tasks=st["tasks"]))
        for p in st["probs"]:
            ctx.problem(sig(st["cfg"], p["kind"]), dict(cfg=st["cfg"], trace=p["trace"], seed=ctx.seed),
                        f"{p['text']} [cfg={st['cfg']} completion-choice-sequence={p['trace']}]")
    items = [(dict(dag=d, optimize=o, parallel=p, batch_size=bs), e)
             for d in names for o in (True, False)
             for e, p, bs in (("single-threaded", False, None), ("threads", False, None), ("threads", True, None), ("threads", True, 2), ("threads", False, 1))]
    nreal = 0
    for cfg, e, obs in ctx.pmap(real_run, items):
        nreal += 1
        for k, t in obs["probs"]:
            ctx.problem(dict(sig(cfg, k), executor=e), dict(cfg=cfg, executor=e), f"{t} [real executor {e}, cfg={cfg}]")
    nhist = 0
    for e, ps in ctx.pmap(callback_history, ["single-threaded", "threads"]):
        nhist += 12
        for k, t in ps:
            ctx.problem(dict(kind=k, history="shared-callbacks", executor=e), dict(history="shared-callbacks", executor=e), f"{t} [executor {e}]")
    ctx.set("callback_history_computes", nhist)
    ctx.set("evaluations", execs + nreal)
    ctx.set("distinct_nontrivial", orders + nreal)
    ctx.set("virtual_executions", execs)
    ctx.set("distinct_event_orders", orders)
    ctx.set("real_executor_runs", nreal)
    ctx.set("deviation_bound", max_dev)
    ctx.set("configs", per)
    ctx.set("rule", "execution = completion order chosen wherever >= 2 tasks run, <= bound non-default choices; distinct_nontrivial = distinct "
            "callback event sequences observed under the virtual executor + runs on real executors")
    ctx.sample(dict(cfg=cfgs[0], choice_sequence=[0, 1], events="compute-start, op-start create-arrays, task-end..., op-end, ..., compute-end"))
    ctx.assumptions += ["processes executor not run (in-memory stores cannot cross processes); its event path is the same async_map_dag"]
