"""C01 on compositions: every program of the tier, every requested set, optimize on/off."""
from __future__ import annotations

from collections import Counter

import numpy as np

from ..cexec import ControlledExecutor
from ..programs import Builder, key
from ..runcase import make_spec
from ..tstore import World


def run_program(case, seed=0, optimize=True, optimize_function=None, executor=None, spec_kw=None, world=None, keep=False):
    """Build and compute the requested terms.  Returns dict(phase, exc_type, exc_msg, got, exp, arrays, world, ex)."""
    import cubed

    own = world is None
    world = world or World()
    res = dict(phase="OK", exc_type=None, exc_msg=None)
    try:
        spec = make_spec(world, **(spec_kw or {}))
        b = Builder(spec, world, seed)
        try:
            built = [b.build(t) for t in case["terms"]]
        except Exception as e:
            res.update(phase="BUILD", exc_type=type(e).__name__, exc_msg=str(e)[:300], exc_mro=[c.__name__ for c in type(e).__mro__])
            return res
        arrs = [x for x, _ in built]
        exp = [v for _, v in built]
        ex = executor or ControlledExecutor(world=world)
        kw = {}
        if optimize_function is not None:
            kw["optimize_function"] = optimize_function
        try:
            got = cubed.compute(*arrs, executor=ex, optimize_graph=optimize, **kw)
        except Exception as e:
            res.update(phase="EXEC" if getattr(ex, "entered", True) else "PLAN", exc_type=type(e).__name__, exc_msg=str(e)[:300],
                       exc_mro=[c.__name__ for c in type(e).__mro__])
            if keep:
                res.update(arrays=arrs, world=world, ex=ex, spec=spec)
            return res
        res.update(got=list(got), exp=exp)
        if keep:
            res.update(arrays=arrs, world=world, ex=ex, spec=spec, builder=b)
        return res
    finally:
        if own and not keep:
            world.dispose()


def diff_values(got, exp):
    for k, (g, e) in enumerate(zip(got, exp)):
        g = np.asarray(g)
        e = np.asarray(e)
        if g.shape != e.shape:
            return f"requested[{k}]: shape {g.shape} vs NumPy {e.shape}"
        if not np.allclose(g, e, rtol=1e-9, atol=1e-12, equal_nan=True):
            bad = np.argwhere(~np.isclose(g, e, equal_nan=True))
            return f"requested[{k}]: {len(bad)} of {e.size} elements differ, first at {tuple(int(i) for i in bad[0])}: cubed={g[tuple(bad[0])]!r} numpy={e[tuple(bad[0])]!r}"
    return None


def uses(case, opname):
    return opname in str(case["terms"])


def eval_case(case, seed, tier):
    cnt = Counter()
    probs = []
    for optimize in ((True,) if tier == "quick" else (True, False)):  # quick: the on/off differential on programs is C02's
        r = run_program(case, seed, optimize)
        cnt["evaluations"] += 1
        if r["phase"] != "OK":
            cnt["declined_or_error"] += 1
            continue
        cnt["compared"] += 1
        if optimize:
            cnt["nontrivial"] += 1
        d = diff_values(r["got"], r["exp"])
        if d:
            probs.append((dict(op="program", kind="value-mismatch", uses_stack=uses(case, "stack0"), uses_cumsum=uses(case, "cumsum0")),
                          f"program {case['terms']} optimize={optimize}: {d}"))
            break
    return cnt, probs
