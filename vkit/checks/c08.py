"""C08 - task failures are retried and surfaced, never dropped; one result per task.

Deciding step: exhaustive deviation-bounded enumeration of executions of the
real async_map_unordered under a virtual loop (scheduler-only mode), plus
exhaustive enumeration of retry outcome sequences for the real retry wrapper,
of should_launch_backup against a reference, and of storage fault sequences on
the real executors.
"""
from __future__ import annotations

import itertools
import math

from ..common import HarnessError, Problem, perm
from ..explore import Chooser, explore
from ..sched import SchedRun, oracle
from ..vloop import seam_selftest

PROPERTY = "C08"
LEVEL = "model_checking"


def configs(tier):
    cfgs = []
    # no backups: every input free; full enumeration
    for n in ([0, 1, 2, 3] if tier == "quick" else [0, 1, 2, 3, 4]):
        for bs in sorted({None, 1, 2, max(n, 1), n + 1}, key=lambda x: (x is not None, x)):
            cfgs.append((dict(n=n, use_backups=False, batch_size=bs, n_fast=0, simul=True), 99))
    # use_backups flag on but too few tasks for backups to engage
    for n in (2, 3):
        cfgs.append((dict(n=n, use_backups=True, batch_size=None, n_fast=0, simul=True, max_ticks=2), 3 if tier == "quick" else 99))
    # backups engage: n_fast prompt inputs + f free stragglers
    free = (2,) if tier == "quick" else (2, 3, 4)
    for f in free:
        for nf in ((9, 10) if f < 4 else (9,)):
            n = nf + f
            for bs in ((None, n + 5) if f < 4 else (None,)):
                for pre in (0, 2):
                    # thorough: 2 and 3 free stragglers are enumerated completely (no deviation bound) once backups are
                    # launched; 4 free stragglers with <= 4 deviations
                    dev = {("quick", 2): 4, ("thorough", 2): 99, ("thorough", 3): 99, ("thorough", 4): 4}[(tier, f)]
                    if pre == 0:
                        dev = min(dev, 5 if tier == "quick" else 6)
                    cfgs.append((dict(n=n, use_backups=True, batch_size=bs, n_fast=nf, pre_ticks=pre,
                                      max_ticks=3, simul=True), dev))
    # batching + backups: a batch must hold >= 10 start times for the straggler test to engage
    for (n, bs, nf) in ((22, 10, 20), (21, 10, 19), (24, 12, 22)):
        for pre in (0, 2):
            cfgs.append((dict(n=n, use_backups=True, batch_size=bs, n_fast=nf, pre_ticks=pre,
                              max_ticks=3, simul=True), 3 if tier == "quick" else 5))
    return cfgs


def explore_cfg(item):
    cfg, max_dev, limit = item
    outcomes = set()
    launched = [0]

    def run(ch):
        return SchedRun(cfg, ch).run()

    def on_exec(obs, ch):
        e = obs["err"]
        outcomes.add((tuple(sorted(obs["results"])), None if e is None else (e["type"], e["inp"]), obs["hang"]))
        launched[0] += obs["backups_launched"]

    def check(obs, trace):
        return oracle(obs)

    st = explore(run, check, max_dev, prune=True, limit=limit, on_exec=on_exec)
    probs = []
    seen = set()
    for trace, (kind, text) in sorted(st["problems"], key=lambda tp: (sum(1 for c in tp[0] if c), len(tp[0]))):
        if kind in seen:
            continue
        seen.add(kind)
        # replay twice: identical observation or harness error
        o1 = SchedRun(cfg, Chooser(trace, 10**9, None)).run()
        o2 = SchedRun(cfg, Chooser(trace, 10**9, None)).run()
        if o1 != o2:
            raise HarnessError(f"replay divergence for cfg={cfg} trace={trace}")
        probs.append(dict(kind=kind, text=text, trace=trace, nsame=sum(1 for _, (k, _t) in st["problems"] if k == kind)))
    st.pop("problems")
    st.update(cfg=cfg, max_dev=max_dev, outcomes=len(outcomes), backups=launched[0], probs=probs)
    return st


def sched_sig(cfg, kind):
    return dict(part="scheduler", kind=kind, use_backups=cfg["use_backups"],
                batching=cfg["batch_size"] is not None and cfg["batch_size"] < cfg["n"])


def replay_case(case):
    part = case["part"]
    if part == "scheduler":
        obs = SchedRun(case["cfg"], Chooser(case["trace"], 10**9, None)).run()
        return [Problem(sched_sig(case["cfg"], k), case, t) for k, t in oracle(obs)]
    if part == "retry":
        return [Problem(dict(part="retry", kind=k), case, t) for k, t in retry_case(case["retries"], case["outcomes"])]
    if part == "backup-policy":
        return [Problem(dict(part="backup-policy", kind=k), case, t) for k, t in policy_case(case)]
    if part == "e2e":
        from .c08_e2e import e2e_case
        return [Problem(dict(part="e2e", kind=k, executor=case["executor"]), case, t) for k, t in e2e_case(case)]
    raise HarnessError(f"unknown part {part}")


# ---------------------------------------------------------------- retry wrapper
def retry_case(retries, outcomes):
    """Drive the real threads_create_futures_func over an inline pool with a
    scripted function whose k-th attempt has outcomes[k] (True = ok)."""
    import asyncio
    import concurrent.futures as cf
    from asyncio import events

    from cubed.runtime.executors.local import threads_create_futures_func

    from ..vloop import VLoop

    attempts = [0]

    class Boom(RuntimeError):
        pass

    def fn(i, **kw):
        k = attempts[0]
        attempts[0] += 1
        ok = outcomes[k] if k < len(outcomes) else True
        if not ok:
            raise Boom(f"attempt {k}")
        return i

    class Inline:
        def submit(self, f, *a, **kw):
            fut = cf.Future()
            try:
                fut.set_result(f(*a, **kw))
            except BaseException as e:  # noqa
                fut.set_exception(e)
            return fut

    loop = VLoop()
    events._set_running_loop(loop)
    try:
        cff = threads_create_futures_func(Inline(), fn, retries)
        [(i, fut)] = cff([7])
        loop.drain()
        done = fut.done()
        exc = fut.exception() if done else None
    finally:
        events._set_running_loop(None)
        loop.close()
    budget = retries + 1
    first_ok = next((k for k, o in enumerate(list(outcomes) + [True] * budget) if o), None)
    exp_ok = first_ok is not None and first_ok < budget
    exp_attempts = first_ok + 1 if exp_ok else budget
    probs = []
    if not done:
        probs.append(("hang", "future of inline pool not done"))
        return probs
    if attempts[0] != exp_attempts:
        probs.append(("attempts", f"retries={retries} outcomes={outcomes}: {attempts[0]} attempts, expected {exp_attempts}"))
    if exp_ok and exc is not None:
        probs.append(("dropped-success", f"retries={retries} outcomes={outcomes}: raised {exc!r} although attempt {first_ok} succeeds within budget"))
    if not exp_ok and exc is None:
        probs.append(("swallowed-failure", f"retries={retries} outcomes={outcomes}: succeeded although all {budget} attempts fail"))
    if not exp_ok and exc is not None and not isinstance(exc, Boom):
        probs.append(("foreign-exception", f"retries={retries} outcomes={outcomes}: raised {type(exc).__name__} instead of the task's error"))
    return probs


# ---------------------------------------------------------------- backup policy
def policy_ref(task, now, start, end, min_tasks, frac, slow):
    if len(start) < min_tasks:
        return False
    need = math.ceil(len(start) * frac)  # at least this many completed
    if len(end) < need:
        return False
    durs = sorted(end[t] - start[t] for t in end)
    return (now - start[task]) > durs[need - 1] * slow


def policy_case(case):
    from cubed.runtime.backup import should_launch_backup
    import contextlib, io

    start = {int(k): v for k, v in case["start"].items()}
    end = {int(k): v for k, v in case["end"].items()}
    with contextlib.redirect_stdout(io.StringIO()):
        try:
            got = should_launch_backup(case["task"], case["now"], start, end, case["min_tasks"], case["frac"], case["slow"])
        except Exception as e:
            return [("foreign-exception", f"should_launch_backup raised {type(e).__name__}: {e} on {case}")]
    exp = policy_ref(case["task"], case["now"], start, end, case["min_tasks"], case["frac"], case["slow"])
    if bool(got) != exp:
        return [("policy-mismatch", f"should_launch_backup={got} reference={exp} on {case}")]
    return []


def policy_cases(tier):
    durs = (1, 2, 5, 10)
    maxn = 3 if tier == "quick" else 4
    for n in range(1, maxn + 1):
        for done in range(0, n):  # tasks 0..done-1 completed, task `done` is the candidate
            for ds in itertools.product(durs, repeat=done):
                for now in (1, 3, 7, 16, 31):
                    for min_tasks in (1, 2, 4):
                        for frac in (0.25, 0.5, 1.0):
                            for slow in (1.0, 3.0):
                                yield dict(part="backup-policy", task=done, now=now,
                                           start={i: 0 for i in range(n)},
                                           end={i: ds[i] for i in range(done)},
                                           min_tasks=min_tasks, frac=frac, slow=slow)


def policy_chunk(cases):
    out = []
    pos = 0
    for c in cases:
        r = policy_case(c)
        if r and case_nontrivial(c):
            pos += 0
        out.append((c, r))
    return [(c, r) for c, r in out if r], len(out), sum(1 for c, _ in out if case_nontrivial(c))


def case_nontrivial(c):
    return len(c["start"]) >= c["min_tasks"] and len(c["end"]) > 0


# ---------------------------------------------------------------- main
def run(ctx):
    seam_selftest()
    tier = ctx.tier
    # A. scheduler exploration
    cfgs = configs(tier)
    limit = 400000 if tier == "quick" else 6000000
    items = perm([(c, d, limit) for c, d in cfgs], ctx.seed)
    res = ctx.pmap(explore_cfg, items)
    execs = states = trans = 0
    per_cfg = []
    for st in res:
        execs += st["executions"]
        states += st["states"]
        trans += st["transitions"]
        if st["capped"]:
            ctx.capped = f"execution limit {limit} hit for cfg {st['cfg']} (bound {st['max_dev']})"
        per_cfg.append(dict(cfg=st["cfg"], max_dev=st["max_dev"], executions=st["executions"], pruned=st["pruned"],
                            states=st["states"], distinct_outcomes=st["outcomes"], backups_launched=st["backups"]))
        for p in st["probs"]:
            case = dict(part="scheduler", cfg=st["cfg"], trace=p["trace"])
            ctx.problem(sched_sig(st["cfg"], p["kind"]), case, f"{p['text']} [cfg={st['cfg']} trace={p['trace']} same-kind={p['nsame']}]")
    # B. retry wrapper
    nretry = 0
    for retries in (0, 1, 2, 3):
        for L in range(0, 5):
            for outcomes in itertools.product((True, False), repeat=L):
                nretry += 1
                for k, t in retry_case(retries, list(outcomes)):
                    ctx.problem(dict(part="retry", kind=k), dict(part="retry", retries=retries, outcomes=list(outcomes)), t)
    # C. backup policy against reference
    pcs = list(policy_cases(tier))
    chunks = [pcs[i:i + 4000] for i in range(0, len(pcs), 4000)]
    npol = npol_nt = 0
    for bad, n, nt in ctx.pmap(policy_chunk, chunks):
        npol += n
        npol_nt += nt
        for c, r in bad[:3]:
            for k, t in r:
                ctx.problem(dict(part="backup-policy", kind=k), c, t)
    # D. end to end fault sequences on the real executors
    from .c08_e2e import e2e_cases, e2e_run
    ecases = list(e2e_cases(tier))
    ne2e = 0
    for c, r in ctx.pmap(e2e_run, ecases):
        ne2e += 1
        for k, t in r:
            ctx.problem(dict(part="e2e", kind=k, executor=c["executor"]), c, t)

    ctx.set("states", states)
    ctx.set("transitions", trans)
    ctx.set("traces_validated_against_impl", execs)
    ctx.set("executions", execs)
    ctx.set("evaluations", execs + nretry + npol + ne2e)
    ctx.set("distinct_nontrivial", sum(c["distinct_outcomes"] for c in per_cfg))
    ctx.set("rule", "scheduler executions = choice sequences (complete ok/fail of any pending original or backup future, "
            "simultaneous second completion with either finished-set order, timer advance) with <= max_dev non-default choices per "
            "configuration, fingerprint-pruned; distinct_nontrivial = distinct (delivered multiset, raised error, hang) outcomes summed over configurations")
    ctx.set("retry_sequences", nretry)
    ctx.set("backup_policy_cases", npol)
    ctx.set("backup_policy_cases_engaging", npol_nt)
    ctx.set("e2e_fault_sequences", ne2e)
    ctx.set("backups_launched_total", sum(c["backups_launched"] for c in per_cfg))
    ctx.set("configs", per_cfg)
    ctx.sample(dict(kind="scheduler execution", cfg=cfgs[-1][0], choice_sequence=[0, 2, 1], meaning="menu index per choice point; 0 = default (complete oldest pending successfully)"))
    ctx.sample(dict(kind="retry sequence", retries=2, outcomes=[False, False, True], expect="3 attempts, success"))
    if ecases:
        ctx.sample(ecases[0])
    ctx.assumptions += [
        "every execution is a run of the real async_map_unordered; futures, clock and wait() order are owned by the harness",
        "prompt inputs complete in index order (inputs are symmetric in the code)",
        "a future outcome 'fail' stands for a submission whose retry budget is exhausted (retry wrapper enumerated separately)",
    ]
