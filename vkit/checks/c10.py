"""C10 - a lazy array's value is fixed when built; inputs and earlier outputs stay intact.

Explicit-state breadth-first search over histories of API calls on a pool of
related lazy arrays.  A state is the history that reaches it, rebuilt on fresh
real objects; states are deduplicated by a canonical form (pool expressions,
which arrays are materialised / re-targeted, declared chunks, targets written,
default executor).  A NumPy shadow is carried along; after EVERY event of EVERY
history: each compute returned the shadow value, in-memory and Zarr inputs and
every previously written target are unchanged, declared chunks are unchanged.
"""
from __future__ import annotations

import hashlib
from collections import Counter

import numpy as np

from ..common import HarnessError, Problem, perm

PROPERTY = "C10"
LEVEL = "model_checking"

XN = np.arange(8.0) + 1
ZN = np.arange(8.0) * 10 + 5
MAXPOOL = 5


class State:
    def __init__(self, start=0):
        self.start = start
        import cubed
        import cubed.array_api as xp
        import zarr
        from zarr.storage import MemoryStore

        self.inter = MemoryStore()
        self.spec = cubed.Spec(intermediate_store=self.inter, allowed_mem=200000)
        self.zstore = MemoryStore()
        za = zarr.create_array(self.zstore, shape=(8,), dtype="f8", chunks=(4,))
        za[:] = ZN
        self.xsrc = XN.copy()
        x = xp.asarray(self.xsrc, chunks=4, spec=self.spec)
        z = cubed.from_zarr(self.zstore, spec=self.spec)
        y = xp.add(x, 1.0)
        # pool entries: [term, array, shadow value, ancestors (set of pool indices incl. self), declared chunks at creation]
        self.pool = [["x", x, XN.copy(), {0}, x.chunks], ["z", z, ZN.copy(), {1}, z.chunks], ["add1(x)", y, XN + 1, {0, 2}, y.chunks]]
        if start == 1:
            # second start state: two further arrays that share the lazy intermediate y (no derivations needed to reach sharing)
            w_ = xp.negative(y)
            v_ = y[1:]
            self.pool.append(["neg(add1(x))", w_, -(XN + 1), {0, 2, 3}, w_.chunks])
            self.pool.append(["add1(x)[1:]", v_, (XN + 1)[1:], {0, 2, 4}, v_.chunks])
        self.targets = []  # (store, expected array, label, source index)
        self.stored = []  # indices of pool arrays that were stored while lazy (uncomputed non-input)
        self.materialised = set()
        self.computed_how = set()  # (array index, optimize_graph): decides which intermediates are in storage (matters for resume)
        self.executor = "single-threaded"


def events_of(st):
    n = len(st.pool)
    ev = []
    if n < MAXPOOL:
        for i in range(n):
            ev.append(("neg", i))
            ev.append(("sum", i))
            ev.append(("slice", i))
            ev.append(("rechunk", i))
        for i in range(n):
            for j in range(n):
                if i != j:
                    ev.append(("sub", i, j))
    for i in range(n):
        for opt in (True, False):
            ev.append(("compute", i, opt, False))
        ev.append(("compute", i, True, True))
    ev.append(("compute_all", True))
    ev.append(("compute_all", "resume"))
    for i in range(n):
        for j in range(i + 1, n):
            if i >= 2 or j >= 2:
                ev.append(("compute_pair", i, j, True))  # two arrays in one compute, resume=True
    for i in range(n):
        for tk in ("new", "same", "diff"):
            for eager in (True, False):
                ev.append(("store", i, tk, eager))
        ev.append(("store", i, "new", "with-pool"))
        ev.append(("to_zarr", i, "new", True))
    ev.append(("config",))
    return ev


def apply(st, e):
    """apply one event; returns list of (kind, text, info) problems, or 'skip' if the event is not applicable"""
    import cubed
    import cubed.array_api as xp
    import zarr
    from cubed.runtime.create import create_executor
    from zarr.storage import MemoryStore

    pool = st.pool
    probs = []
    ex = create_executor(st.executor)
    k = e[0]

    def observe(i, r, how):
        nm, a, v, anc, _ = pool[i]
        if np.shape(r) != v.shape or not np.array_equal(np.asarray(r), v):
            probs.append(("wrong-compute", f"{how} of {nm} returned {np.asarray(r).tolist()}, its value when built is {v.tolist()}", dict(array=i)))

    if k == "neg":
        nm, a, v, anc, _ = pool[e[1]]
        b = xp.negative(a)
        pool.append([f"neg({nm})", b, -v, anc | {len(pool)}, b.chunks])
    elif k == "sum":
        nm, a, v, anc, _ = pool[e[1]]
        if v.ndim == 0:
            return "skip"
        b = xp.sum(a)
        pool.append([f"sum({nm})", b, np.asarray(v.sum()), anc | {len(pool)}, b.chunks])
    elif k == "slice":
        nm, a, v, anc, _ = pool[e[1]]
        if v.ndim == 0 or v.shape[0] < 2:
            return "skip"
        b = a[1:]
        pool.append([f"{nm}[1:]", b, v[1:], anc | {len(pool)}, b.chunks])
    elif k == "rechunk":
        nm, a, v, anc, _ = pool[e[1]]
        if v.ndim == 0:
            return "skip"
        b = a.rechunk((3,))
        pool.append([f"rechunk({nm})", b, v, anc | {len(pool)}, b.chunks])
    elif k == "sub":
        (n1, a, v, anc1, _), (n2, b, w, anc2, _) = pool[e[1]], pool[e[2]]
        if v.shape != w.shape:
            return "skip"
        c = xp.subtract(a, b)
        pool.append([f"sub({n1},{n2})", c, v - w, anc1 | anc2 | {len(pool)}, c.chunks])
    elif k == "compute":
        i = e[1]
        r = pool[i][1].compute(executor=ex, optimize_graph=e[2], resume=e[3] or None)
        observe(i, r, f"compute(optimize_graph={e[2]}, resume={e[3]})")
        st.materialised.add(i)
        st.computed_how.add((i, bool(e[2])))
    elif k == "compute_pair":
        i, j = e[1], e[2]
        rs = cubed.compute(pool[i][1], pool[j][1], executor=ex, resume=True)
        observe(i, rs[0], "compute(a, b, resume=True)")
        observe(j, rs[1], "compute(a, b, resume=True)")
        st.materialised |= {i, j}
    elif k == "compute_all":
        rs = cubed.compute(*[p[1] for p in pool], executor=ex, **({"resume": True} if e[1] == "resume" else {}))
        for i, r in enumerate(rs):
            observe(i, r, "compute of the whole pool")
        st.materialised |= set(range(len(pool)))
    elif k in ("store", "to_zarr"):
        i = e[1]
        nm, a, v, anc, _ = pool[i]
        if v.ndim == 0:
            return "skip"
        ts = MemoryStore()
        if e[2] == "new":
            tgt = ts
        else:
            tgt = zarr.create_array(ts, shape=v.shape, dtype="f8", chunks=(4,) if e[2] == "same" else (v.shape[0],), fill_value=-7.0)
            tgt[:] = -7
        lazy_source = i >= 2 and i not in st.materialised
        if k == "to_zarr":
            cubed.to_zarr(a, tgt, executor=ex)
        elif e[3] == "with-pool":
            # the lazily stored array is computed together with every array of the pool (plans are merged)
            (lz,) = cubed.store(a, tgt, compute=False)
            rs = cubed.compute(lz, *[p[1] for p in pool], executor=ex)
            observe(i, rs[0], "compute of the lazily stored array together with the pool")
            for j, r in enumerate(rs[1:]):
                observe(j, r, "compute of the pool together with a lazily stored array")
            st.materialised |= set(range(len(pool)))
        elif e[3]:
            cubed.store(a, tgt, executor=ex)
        else:
            (lz,) = cubed.store(a, tgt, compute=False)
            lz.compute(executor=ex)
        st.targets.append((ts, v.copy(), nm, i))
        if lazy_source:
            st.stored.append(i)
    elif k == "config":
        st.executor = "threads" if st.executor == "single-threaded" else "single-threaded"
    # invariants after every event
    if not np.array_equal(np.asarray(zarr.open_array(st.zstore, mode="r")[:]), ZN):
        probs.append(("source-modified", "the Zarr input array was modified", {}))
    if not np.array_equal(st.xsrc, XN):
        probs.append(("source-modified", "the in-memory input array was modified", {}))
    for ts, v, nm, i in st.targets:
        try:
            got = np.asarray(zarr.open_array(ts, mode="r")[:])
            if not np.array_equal(got, v):
                probs.append(("target-changed", f"the target written from {nm} now holds {got.tolist()}, expected {v.tolist()}", dict(array=i)))
        except Exception as ex_:
            probs.append(("target-changed", f"the target written from {nm} is unreadable ({type(ex_).__name__})", dict(array=i)))
    for i, (nm, a, v, anc, ch) in enumerate(pool):
        if a.chunks != ch:
            probs.append(("chunks-changed", f"declared chunks of {nm} changed from {ch} to {a.chunks}", dict(array=i)))
    return probs


def canon(st):
    from cubed.storage.zarr import LazyZarrArray
    items = []
    for i, (nm, a, v, anc, ch) in enumerate(st.pool):
        items.append((nm, i in st.materialised, type(a._zarray).__name__, a.chunks == ch))
    tg = sorted((nm, hashlib.sha1(v.tobytes()).hexdigest()[:8]) for _, v, nm, _ in st.targets)
    return (tuple(items), tuple(tg), tuple(sorted(st.stored)), st.executor, tuple(sorted(st.computed_how)), st.start)


def classify(st, kind, info):
    """root-cause signature: does the failing observation concern an array that was stored while lazy, or one
    that shares an ancestor with such an array (the in-place re-targeting family)?"""
    i = info.get("array")
    related = False
    if i is not None:
        anc = st.pool[i][3]
        related = any(j in anc or (st.pool[j][3] & anc - {0, 1}) for j in st.stored)
    return dict(kind=kind, after_store_of_lazy_relative=related)


def replay(hist):
    """returns (state, problems of the LAST event as [(sig, text)]) or (None, 'skip')"""
    import contextlib, io
    start = 0
    if hist and hist[0][0] == "start":
        start = hist[0][1]
        hist = hist[1:]
        st = State(start)
        if not hist:
            return st, []
    else:
        st = State(0)
    for n, e in enumerate(hist):
        try:
            with contextlib.redirect_stdout(io.StringIO()):
                p = apply(st, tuple(e))
        except Exception as ex_:
            p = [("api-call-failed", f"{type(ex_).__name__}: {str(ex_)[:120]}", {})]
        if p == "skip":
            return None, "skip"
        if p and n < len(hist) - 1:
            return None, "dead"  # an earlier event already violated: reported at its own level
        if n == len(hist) - 1:
            return st, [(classify(st, k, info), t) for k, t, info in p]
    return st, []


def step(item):
    hist = item
    st, p = replay(hist)
    if st is None:
        return hist, None, p, 0
    return hist, canon(st), p, len(events_of(st))


def interesting(hist):
    return any(e[0] in ("store", "to_zarr") for e in hist)


def real_len(hist):
    return len([e for e in hist if e[0] != "start"])


def inputs_intact_chunk(cases):
    """one computation per catalogue (operation, variant) with in-memory inputs and with Zarr inputs: the NumPy arrays handed to
    cubed and the source Zarr stores must be byte-identical afterwards"""
    from ..runcase import run_case
    from ..common import worker_seed
    out = []
    n = 0
    for case in cases:
        for src in (None, "from_zarr"):
            if src and (not case["inputs"] or case["params"].get("src")):
                continue
            c2 = dict(case, params=dict(case["params"], **({"src": src} if src else {})))
            for optimize in ((True, False) if src is None else (True,)):
                obs = run_case(c2, seed=worker_seed(), optimize=optimize)
                n += 1
                if obs.phase != "OK":
                    continue
                if obs.input_modified:
                    out.append((dict(kind="source-modified", after_store_of_lazy_relative=False, op=case["op"]), dict(part="inputs", case=c2),
                                f"{case['op']} {case['params']}: the in-memory input arrays {obs.input_modified} handed to cubed were modified by compute (optimize_graph={optimize})"))
                if obs.source_store_modified:
                    out.append((dict(kind="source-modified", after_store_of_lazy_relative=False, op=case["op"]), dict(part="inputs", case=c2),
                                f"{case['op']} {case['params']}: the source Zarr store {obs.source_store_modified} was modified by compute (optimize_graph={optimize})"))
    return n, out


def replay_case(case):
    if case.get("part") == "inputs":
        _, out = inputs_intact_chunk([case["case"]])
        return [Problem(sig, c, t) for sig, c, t in out]
    st, p = replay([tuple(e) for e in case["history"]])
    if st is None:
        return []
    return [Problem(sig, case, t) for sig, t in p]


LEVEL_CAP = 40000


def run(ctx):
    tier = ctx.tier
    full_depth = 2 if tier == "quick" else 3
    max_depth = 3 if tier == "quick" else 4
    seen = {}
    frontier = [[], [["start", 1]]]
    for h0 in frontier:
        st0, _ = replay(h0)
        seen[canon(st0)] = h0
    transitions = 0
    reported = set()
    levels = []
    observations = Counter()
    for depth in range(1, max_depth + 1):
        items = []
        for h in frontier:
            st, _ = replay(h)
            if st is None:
                continue
            for e in events_of(st):
                if depth > full_depth:
                    # beyond the fully explored depth: only histories that contain a store, extended by observing events
                    # (quick: computes only; thorough: also further stores)
                    allowed = ("compute", "compute_all", "compute_pair") if tier == "quick" else ("compute", "compute_all", "compute_pair", "store", "to_zarr")
                    if not interesting(h) or e[0] not in allowed:
                        continue
                    if tier == "quick" and not any(ev[0] in ("store", "to_zarr") and ev[1] >= 2 for ev in h):
                        continue  # quick: the last level only after a store of a lazy (non-input) array
                    if tier == "quick" and e[0] == "compute" and (e[3] or not e[2]):
                        continue  # quick: at the last level only the plain compute variant
                items.append(h + [list(e)])
        items = perm(items, ctx.seed)
        if len(items) > LEVEL_CAP:
            # a level larger than the cap is cut to an evenly spread (seed-permuted) sub-sample, and the cut is reported
            ctx.capped = f"history level {depth}: {LEVEL_CAP} of {len(items)} one-event extensions replayed (cap per level)"
            items = items[:LEVEL_CAP]
        results = ctx.pmap(step, items, chunksize=8)
        nxt = []
        for hist, c, p, nev in sorted(results, key=lambda r: (len(r[0]), str(r[0]))):
            if c is None:
                continue
            transitions += 1
            observations[hist[-1][0]] += 1
            for sig, text in p:
                key = (sig["kind"], sig["after_store_of_lazy_relative"])
                ctx.problem(sig, dict(history=hist), f"history {hist}: {text}")
            if p:
                continue
            if c not in seen:
                seen[c] = hist
                nxt.append(hist)
        levels.append(dict(depth=depth, histories=len(items), new_states=len(nxt)))
        frontier = nxt
    # inputs stay intact for every catalogued operation (one multi-block case per operation variant)
    from ..catalog import cases as catalogue_cases
    pick = {}
    for c in catalogue_cases("quick"):
        if not c["inputs"]:
            continue
        nb = [tuple(-(-n // ch) if n else 1 for n, ch in zip(i["shape"], i["chunks"])) for i in c["inputs"]]
        flat = [b for t in nb for b in t]
        # block layout class: every axis one block / every axis several blocks / mixed (some axis in a single chunk)
        cls = "single" if all(b == 1 for b in flat) else ("multi" if flat and all(b > 1 for b in flat) else "mixed")
        key = (c["op"], c["params"].get("fn"), c["params"].get("mode"), c["params"].get("op"), str(c["params"].get("axis")), len(c["inputs"][0]["shape"]), cls)
        size = sum(int(np.prod(i["shape"])) for i in c["inputs"])
        if all(all(i["shape"]) for i in c["inputs"]) and (key not in pick or size > pick[key][1]):
            pick[key] = (c, size)  # the largest case of each class (a one-element array cannot show an in-place reordering)
    slice_cases = [v[0] for v in pick.values()]
    ninputs = 0
    for n, out in ctx.pmap(inputs_intact_chunk, [slice_cases[i::16] for i in range(16)]):
        ninputs += n
        for sig, case, text in out:
            ctx.problem(sig, case, text)
    ctx.set("inputs_intact_computations", ninputs)
    ctx.set("states", len(seen))
    ctx.set("transitions", transitions)
    ctx.set("traces_validated_against_impl", transitions)
    ctx.set("evaluations", transitions)
    ctx.set("distinct_nontrivial", len(seen))
    ctx.set("levels", levels)
    ctx.set("events_by_kind", dict(observations))
    ctx.set("full_depth", full_depth)
    ctx.set("max_depth", max_depth)
    ctx.set("rule", "state = canonical form of (pool expressions, materialised flags, backing kind, declared-chunks-intact, targets written, arrays stored while lazy, default executor); "
            "every event of the alphabet from every distinct state up to full_depth; beyond it only histories containing a store, extended by compute/store events")
    ctx.sample(dict(history=[["store", 2, "diff", True], ["compute", 2, True, False]], meaning="store lazy y=x+1 into a differently chunked existing array, then compute y"))
    ctx.assumptions += ["every history is replayed on fresh real objects (live lazy arrays cannot be copied)",
                        "pool bounded to 5 arrays, 1-d length 8"]
