"""C02 - graph optimization (operation fusion) never changes any computed value.

Differential check: for every program (DAG with sharing, repeated arguments,
multi-output ops, reductions, selections, rechunks) and requested set, the
values computed with optimize_graph=False are compared with the values computed
under every optimizer setting of a finite menu; afterwards every requested
array must be fully materialised in storage and hold the returned value.
"""
from __future__ import annotations

import itertools
from collections import Counter
from functools import partial

import numpy as np

from ..cexec import ControlledExecutor
from ..common import stable_hash, Problem
from ..programs import Builder
from ..runcase import make_spec
from ..sweep import sweep
from ..tstore import World

PROPERTY = "C02"
LEVEL = "exploration"


def settings_for(case, tier):
    """list of setting descriptors (JSON-able)"""
    quick = tier == "quick"
    out = [dict(kind="default"), dict(kind="fuse_all"), dict(kind="simple")]
    if not quick or case.get("_full"):
        out += [dict(kind="multi", max_total_source_arrays=1, max_total_num_input_blocks=None),
                dict(kind="multi", max_total_source_arrays=10, max_total_num_input_blocks=None)]
    if quick and not case.get("_full"):
        return out
    for a in (1, 2, 4, 10):
        for b in (None, 1, 2, 10):
            out.append(dict(kind="multi", max_total_source_arrays=a, max_total_num_input_blocks=b))
    for mode in ("always", "never", "only"):
        out.append(dict(kind="subsets", mode=mode))
    return out


def subsets(ops):
    if len(ops) <= 4:
        return [list(c) for r in range(0, len(ops) + 1) for c in itertools.combinations(ops, r)]
    return [[]] + [[o] for o in ops] + [list(ops)] + [list(ops[:-1])] + [list(ops[1:])]


def make_optimize_functions(setting, op_names):
    """yield (label, optimize_function or None-for-default)"""
    from cubed.core.optimization import fuse_all_optimize_dag, fuse_only_optimize_dag, multiple_inputs_optimize_dag, simple_optimize_dag

    k = setting["kind"]
    if k == "default":
        yield "default", None
    elif k == "fuse_all":
        yield "fuse_all", fuse_all_optimize_dag
    elif k == "simple":
        yield "simple", simple_optimize_dag
    elif k == "multi":
        yield (f"multi({setting['max_total_source_arrays']},{setting['max_total_num_input_blocks']})",
               partial(multiple_inputs_optimize_dag, max_total_source_arrays=setting["max_total_source_arrays"],
                       max_total_num_input_blocks=setting["max_total_num_input_blocks"]))
    elif k == "subsets":
        for sub in subsets(op_names):
            idx = [op_names.index(s) for s in sub]
            if setting["mode"] == "always":
                yield f"always_fuse{idx}", partial(multiple_inputs_optimize_dag, always_fuse=sub)
            elif setting["mode"] == "never":
                yield f"never_fuse{idx}", partial(multiple_inputs_optimize_dag, never_fuse=sub)
            else:
                yield f"fuse_only{idx}", partial(fuse_only_optimize_dag, only_fuse=sub)


def compute_once(case, seed, optimize, setting=None, subset_index=None):
    """fresh build; returns list of result dicts (one per optimize function of the setting)"""
    import cubed
    import networkx as nx
    import zarr

    results = []
    # the op names are only known after building; build once to learn how many functions the setting expands to
    def one(fn_index):
        w = World()
        try:
            spec = make_spec(w)
            b = Builder(spec, w, seed)
            try:
                built = [b.build(t) for t in case["terms"]]
            except Exception as e:
                return dict(label="build", phase="BUILD", exc=type(e).__name__, msg=str(e)[:200]), 1
            arrs = [x for x, _ in built]
            exp = [v for _, v in built]
            mid_target = None
            if case.get("store_mid"):
                # the first requested term is stored lazily into a user target and only an array DERIVED from the stored
                # array is computed: the target must be written the same whether or not the graph is optimized
                import cubed.array_api as xp
                mid_target = w.store("midtgt")
                (stored,) = cubed.store([arrs[0]], [mid_target], compute=False)
                arrs = [xp.negative(stored)] + arrs[1:]
                exp = [-np.asarray(exp[0])] + exp[1:]
            dag = nx.compose_all([a._plan.dag for a in arrs])
            op_names = [n for n in nx.topological_sort(dag) if str(n).startswith("op-")]
            if not optimize:
                fns = [("unoptimized", None)]
            else:
                fns = list(make_optimize_functions(setting, op_names))
            if fn_index >= len(fns):
                return None, len(fns)
            label, fn = fns[fn_index]
            ex = ControlledExecutor(world=w)
            kw = {}
            if fn is not None:
                kw["optimize_function"] = fn
            if optimize and len(arrs) > 1 and int(stable_hash(case["terms"]), 16) % 2 == 0:
                # non-initial optimizer state (deterministic half of the multi-output programs): every requested array has
                # been planned on its own before they are computed together - what the optimizer decided for one graph
                # must not leak into the next (a shared intermediate fused away for one consumer is shared again here)
                for a in arrs:
                    try:
                        cubed.plan(a, optimize_graph=True, **kw)
                    except Exception:
                        pass
            try:
                got = cubed.compute(*arrs, executor=ex, optimize_graph=optimize, **kw)
            except Exception as e:
                return dict(label=label, phase="EXEC" if ex.entered else "PLAN", exc=type(e).__name__, msg=str(e)[:200]), len(fns)
            got = [np.asarray(g) for g in got]
            # materialisation of every requested array
            mat = []
            st = w.stores["inter"]
            from cubed.storage.zarr import LazyZarrArray
            for a, g in zip(arrs, got):
                if not isinstance(dag.nodes[a.name].get("target"), LazyZarrArray):
                    continue  # a requested array that is an input (Zarr source / in-memory): nothing to materialise
                try:
                    za = zarr.open_array(st.with_read_only(True), path=a.name, mode="r")
                    if za.nchunks_initialized != za.nchunks:
                        mat.append(f"requested array {a.name} has {za.nchunks_initialized} of {za.nchunks} chunks in storage")
                    elif not np.array_equal(np.asarray(za[...]), g, equal_nan=True):
                        mat.append(f"requested array {a.name}: stored contents differ from the returned value")
                except Exception as e:
                    mat.append(f"requested array {a.name} is not in storage after compute ({type(e).__name__})")
            if mid_target is not None:
                try:
                    tv = np.asarray(zarr.open_array(mid_target.with_read_only(True), mode="r")[...])
                    if not np.array_equal(tv, -got[0], equal_nan=True):
                        mat.append("the store target in the middle of the graph holds other values than the stored array")
                except Exception as e:
                    mat.append(f"the store target in the middle of the graph was not written ({type(e).__name__})")
            nfused = sum(1 for n, d in ex.dag.nodes(data=True) if "fused" in str(getattr(d.get("pipeline"), "name", "")))
            return dict(label=label, phase="OK", got=got, exp=exp, mat=mat, nops=len(ex.ops), nfused=nfused, total_ops=len(op_names)), len(fns)
        finally:
            w.dispose()

    i = 0
    while True:
        r, n = one(i)
        if r is None:
            break
        results.append(r)
        i += 1
        if i >= n:
            break
    return results


def eval_case(case, seed, tier):
    cnt = Counter()
    probs = []
    base = compute_once(case, seed, False)[0]
    cnt["evaluations"] += 1
    if base["phase"] != "OK":
        cnt["unoptimized_declined"] += 1
        return cnt, probs
    for setting in settings_for(case, tier):
        for r in compute_once(case, seed, True, setting):
            cnt["evaluations"] += 1
            if r["phase"] != "OK":
                # forced fusion may push a plan over the memory budget: refused by admission (C04), not a value
                if r["exc"] == "ValueError" and "exceeds allowed_mem" in r["msg"] and r["phase"] == "PLAN":
                    cnt["declined_memory"] += 1
                    continue
                probs.append((dict(kind="optimized-fails", setting=setting["kind"], exc=r["exc"], phase=r["phase"]),
                              f"program {case['terms']} computes unoptimized but {r['label']} -> {r['phase']} {r['exc']}: {r['msg']}"))
                break
            cnt["compared"] += 1
            if r["nfused"]:
                cnt["with_fused_ops"] += 1
                cnt["nontrivial"] += 1
            bad = None
            for k, (g, b) in enumerate(zip(r["got"], base["got"])):
                if g.shape != b.shape or not np.array_equal(g, b, equal_nan=True):
                    e = np.asarray(base["exp"][k])
                    who = "optimized" if (b.shape == e.shape and np.allclose(b, e, equal_nan=True)) else "unoptimized (or both)"
                    bad = f"requested[{k}] differs between optimize_graph=False and {r['label']}; wrong side by NumPy: {who}; optimized={g.tolist()} unoptimized={b.tolist()}"
                    break
            if bad:
                probs.append((dict(kind="value-changed-by-optimization", setting=setting["kind"]), f"program {case['terms']}: {bad}"))
                break
            if r["mat"]:
                probs.append((dict(kind="requested-array-not-materialised", setting=setting["kind"]), f"program {case['terms']} under {r['label']}: {r['mat'][0]}"))
                break
        else:
            continue
        break
    return cnt, probs


def replay_case(case):
    _, probs = eval_case(dict(case, _full=True), 0, "thorough")
    return [Problem(sig, case, d) for sig, d in probs]


def run(ctx):
    from ..programs import program_cases
    pc = list(program_cases(ctx.tier))
    if ctx.tier == "quick":
        # quick: all 1-node programs and every third 2-node program (deterministic partition); the full settings
        # menu on every 40th program; thorough covers everything
        # ... plus the forks (an unrequested intermediate with two requested consumers: 3 op nodes)
        pc = [p for p in pc if p["nodes"] == 1] + [p for p in pc if p["nodes"] == 2][::3] + [p for p in pc if p["nodes"] == 3 and len(p["terms"]) == 2]
        for i, p in enumerate(pc):
            if i % 40 == 0:
                p["_full"] = True
    else:
        for p in pc:
            if p["nodes"] <= 2:
                p["_full"] = True
    # hand-written deeper shapes (3-5 op nodes) that the closure only reaches in the thorough tier: a fused pair whose first op has two
    # inputs, one of them produced by another (unfusable-for-legacy) multi-input op; reductions over multi-input chains; shared sub-terms
    A_, B_, Z_ = "a", "b", "z"
    deep = [
        [["neg", ["sub", Z_, ["sub", A_, B_]]]],
        [["neg", ["sub", ["sub", A_, B_], Z_]]],
        [["neg", ["sub", Z_, ["sub", ["neg", A_], B_]]]],
        [["T", ["sub", ["neg", Z_], ["sub", A_, ["neg", B_]]]]],
        [["sum0", ["sub", A_, ["sub", Z_, B_]]]],
        [["mean1", ["sub", ["sub", A_, B_], ["neg", Z_]]]],
        [["neg", ["sub", ["slice1", A_], ["slice1", ["sub", Z_, B_]]]]],
        [["sub", ["neg", ["sub", A_, B_]], ["T", ["T", ["sub", A_, B_]]]]],
        [["neg", ["concat0", ["sub", A_, Z_], ["neg", ["sub", Z_, A_]]]]],
        [["neg", ["sub", ["unstack0", ["sub", A_, Z_]], ["unstack1", ["sub", A_, Z_]]]]],
        [["neg", ["sub", Z_, ["sub", A_, B_]]], ["sub", A_, B_]],
    ]
    pc = pc + [dict(op="program", terms=t, nodes=4, _full=True) for t in deep]
    # store targets in the middle of the graph: every 1-node program and a slice of the 2-node programs, stored then negated
    mids = [dict(p, store_mid=True) for p in pc if p["nodes"] == 1 and len(p["terms"]) == 1]
    mids += [dict(p, store_mid=True) for p in pc if p["nodes"] == 2 and len(p["terms"]) == 1][:: (9 if ctx.tier == "quick" else 2)]
    pc = pc + mids
    total = sweep(ctx, __name__, pc, chunksize=12)
    ctx.set("evaluations", total["evaluations"])
    ctx.set("distinct_nontrivial", total["nontrivial"])
    ctx.set("programs_checked", len(pc))
    ctx.set("optimized_computations_compared", total["compared"])
    ctx.set("optimized_computations_with_fused_ops", total["with_fused_ops"])
    ctx.set("declined_over_memory_under_forced_fusion", total["declined_memory"])
    ctx.set("programs_declined_unoptimized", total["unoptimized_declined"])
    ctx.set("rule", "program x optimizer setting (default, fuse-all, legacy simple, multiple-inputs with (max_total_source_arrays, max_total_num_input_blocks) grid, "
            "every always_fuse / never_fuse / fuse_only subset of the program's ops); quick: every third 2-node program, three settings, the full menu on every 40th program; "
            "distinct_nontrivial = optimized computations whose executed plan contained a fused op")
    ctx.sample(dict(program=pc[0]["terms"], settings=["default", "fuse_all", "simple", "multi(1,None)", "always_fuse[0]"]))
    ctx.assumptions += ["optimize_graph=False is the reference; NumPy only names the wrong side"]
