"""C08 end to end: real compute() on the real local executors over a
fault-injecting TStore; every fault sequence in {ok,fail}^<=L on one chosen
chunk access.  Expected outcome and access count follow from the executor's
retry budget and do not depend on thread timing."""
from __future__ import annotations

import itertools

import numpy as np


def e2e_cases(tier):
    L = 3 if tier == "quick" else 4
    execs = [("single-threaded", {}), ("threads", {}), ("threads", {"retries": 0}), ("threads", {"retries": 1})]
    if tier == "thorough":
        execs += [("threads", {"retries": 3}), ("threads", {"compute_arrays_in_parallel": True}),
                  ("threads", {"batch_size": 1}), ("threads", {"max_workers": 1})]
    for name, kw in execs:
        for site in ("read", "write"):
            for l in range(0, L + 1):
                for outcomes in itertools.product((True, False), repeat=l):
                    if l and outcomes[-1]:
                        continue  # trailing ok is the default; avoid duplicates
                    yield dict(part="e2e", executor=name, kwargs=kw, site=site, outcomes=list(outcomes))


def budget(case):
    if case["executor"] == "threads":
        return case["kwargs"].get("retries", 2) + 1
    return 1


def e2e_case(case):
    import cubed
    import cubed.array_api as xp
    import zarr
    from cubed.runtime.create import create_executor
    from ..tstore import World, InjectedFault

    w = World()
    src = w.store("src")
    inter = w.store("inter")
    data = np.arange(1.0, 7.0)
    za = zarr.create_array(src, shape=(6,), dtype="f8", chunks=(3,))
    za[:] = data
    spec = cubed.Spec(intermediate_store=inter, allowed_mem=200000)
    x = cubed.from_zarr(src, spec=spec)
    y = xp.negative(x)
    if case["site"] == "read":
        w.add_fault("src", "get", r"^c/0$", case["outcomes"])
    else:
        w.add_fault("inter", "set", rf"^{y.name}/c/0$", case["outcomes"])
    ex = create_executor(case["executor"], dict(case["kwargs"]))
    err = None
    res = None
    try:
        res = y.compute(executor=ex)
    except BaseException as e:  # noqa
        err = e
    B = budget(case)
    o = list(case["outcomes"]) + [True] * (B + 1)
    first_ok = next(k for k, v in enumerate(o) if v)
    exp_ok = first_ok < B
    exp_count = first_ok + 1 if exp_ok else B
    count = w.faults[0]["count"]
    probs = []
    if exp_ok:
        if err is not None:
            probs.append(("dropped-success", f"{case}: raised {type(err).__name__}: {err} although attempt {first_ok} is within the budget of {B}"))
        elif not np.array_equal(res, -data):
            probs.append(("wrong-value", f"{case}: result {res!r} != {-data!r}"))
    else:
        if err is None:
            probs.append(("swallowed-failure", f"{case}: compute finished although all {B} attempts failed; result={res!r}"))
        elif not isinstance(err, InjectedFault):
            probs.append(("foreign-exception", f"{case}: raised {type(err).__name__}: {err} instead of the task's error"))
    if count != exp_count:
        probs.append(("attempts", f"{case}: chunk accessed {count} times, expected {exp_count} (budget {B})"))
    return probs


def e2e_run(case):
    return case, e2e_case(case)
