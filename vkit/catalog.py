"""Operation catalogue: one entry per public array function with a finite
argument domain, the NumPy reference and the comparison mode.

A case is JSON-able: {"op", "inputs": [{"shape","chunks","dtype","kind"}], "params": {...}}.
"""
from __future__ import annotations

import itertools
import json

import numpy as np

from .scope import FIXED_GEOMS, broadcast_pairs, chunkings_1d, geoms, mkdata

QD = (0, 1, 2, 3, 5)
TD = (0, 1, 2, 3, 4, 5, 7)
SD = (1, 2, 5)


def _t(x):
    """json list -> tuple (recursively)"""
    if isinstance(x, list):
        return tuple(_t(v) for v in x)
    return x


def inp(shape, chunks, dtype="float64", kind="distinct"):
    return dict(shape=list(shape), chunks=list(chunks), dtype=dtype, kind=kind)


def D(tier, small=False):
    if small:
        return SD if tier == "quick" else QD
    return QD if tier == "quick" else TD


def G1(tier, maxnd=2, small=False, minnd=1):
    dims = D(tier, small)
    out = []
    for nd in range(minnd, maxnd + 1):
        if nd == 3:
            dd = (1, 2, 3) if tier == "quick" else (0, 1, 2, 3, 5)
            out += geoms(3, dd)
        elif nd == 4:
            out += geoms(4, (1, 2))
        else:
            out += geoms(nd, dims)
    return out


class Op:
    def __init__(self, name, gen, build, ref, close=False, judge=None, group="misc", multi=False, nondet=False):
        self.name = name
        self.gen = gen
        self.build = build
        self.ref = ref
        self.close = close
        self.judge = judge
        self.group = group
        self.multi = multi
        self.nondet = nondet


OPS: dict[str, Op] = {}


def reg(name, gen, build, ref, **kw):
    OPS[name] = Op(name, gen, build, ref, **kw)


def xp():
    import cubed.array_api as m

    return m


def cb():
    import cubed

    return cubed


# ----------------------------------------------------------------- elementwise
FLOAT_UNARY = "acos acosh asin asinh atan atanh cos cosh exp expm1 log log1p log2 log10 sin sinh sqrt tan tanh ceil floor trunc round sign signbit square reciprocal abs negative positive isfinite isinf isnan".split()
NP_NAME = dict(acos="arccos", acosh="arccosh", asin="arcsin", asinh="arcsinh", atan="arctan", atanh="arctanh",
               atan2="arctan2", pow="power", bitwise_invert="invert", bitwise_left_shift="left_shift",
               bitwise_right_shift="right_shift", concat="concatenate", permute_dims="transpose")
INT_UNARY = "abs negative positive square sign bitwise_invert".split()
BOOL_UNARY = "logical_not bitwise_invert".split()
COMPLEX_UNARY = "conj real imag abs".split()
FLOAT_BINARY = "add subtract multiply divide atan2 copysign hypot logaddexp maximum minimum pow remainder floor_divide nextafter equal not_equal less less_equal greater greater_equal".split()
INT_BINARY = "add subtract multiply floor_divide remainder bitwise_and bitwise_or bitwise_xor bitwise_left_shift bitwise_right_shift maximum minimum equal less".split()
BOOL_BINARY = "logical_and logical_or logical_xor bitwise_and bitwise_or bitwise_xor equal".split()


def npf(name):
    return getattr(np, NP_NAME.get(name, name))


def _unary_kind(name):
    if name in ("acos", "asin", "atanh"):
        return "unit"
    if name in ("acosh", "log", "log2", "log10", "sqrt", "log1p"):
        return "pos"
    if name in ("ceil", "floor", "trunc", "round"):
        return "frac"
    return "distinct"


def gen_unary_all(names, dtype):
    def gen(tier):
        for name in names:
            for shape, chunks in FIXED_GEOMS:
                yield [inp(shape, chunks, dtype, _unary_kind(name))], dict(fn=name)
    return gen


def _small(ns):
    # keep exp/sinh etc. finite and exact-comparable: scale down large magnitudes
    return ns


reg("unary_float", gen_unary_all(FLOAT_UNARY, "float64"),
    lambda xs, p: getattr(xp(), p["fn"])(xs[0]),
    lambda ns, p: npf(p["fn"])(ns[0]), group="elementwise", close=True)
reg("unary_float32", gen_unary_all(["negative", "sqrt", "abs", "sign"], "float32"),
    lambda xs, p: getattr(xp(), p["fn"])(xs[0]),
    lambda ns, p: npf(p["fn"])(ns[0]), group="elementwise", close=True)
reg("unary_int", gen_unary_all(INT_UNARY, "int32"),
    lambda xs, p: getattr(xp(), p["fn"])(xs[0]),
    lambda ns, p: npf(p["fn"])(ns[0]), group="elementwise")
reg("unary_int_other", lambda tier: (([inp(s, c, dt)], dict(fn=fn)) for dt in ("int8", "int16", "int64", "uint8", "uint16", "uint32", "uint64")
                                     for fn in ("positive", "square", "bitwise_invert") for s, c in FIXED_GEOMS[3:8]),
    lambda xs, p: getattr(xp(), p["fn"])(xs[0]),
    lambda ns, p: npf(p["fn"])(ns[0]), group="elementwise")
reg("unary_bool", gen_unary_all(BOOL_UNARY, "bool"),
    lambda xs, p: getattr(xp(), p["fn"])(xs[0]),
    lambda ns, p: npf(p["fn"])(ns[0]), group="elementwise")
reg("unary_complex", gen_unary_all(COMPLEX_UNARY, "complex128"),
    lambda xs, p: getattr(xp(), p["fn"])(xs[0]),
    lambda ns, p: npf(p["fn"])(ns[0]), group="elementwise", close=True)


def gen_negative_all(tier):
    for shape, chunks in [((), ())] + G1(tier, 4 if tier == "thorough" else 3):
        yield [inp(shape, chunks)], {}


reg("negative_allgeom", gen_negative_all, lambda xs, p: xp().negative(xs[0]), lambda ns, p: -ns[0], group="elementwise")


def gen_binary_names(names, dtype):
    # all functions, fixed geometry set, operands chunked differently
    pairs = [
        (((5,), (2,)), ((5,), (3,))),
        (((3, 4), (2, 2)), ((3, 4), (1, 3))),
        (((3, 4), (2, 3)), ((4,), (1,))),
        (((2, 1, 3), (1, 1, 2)), ((4, 1), (3, 1))),
        (((), ()), ((3,), (2,))),
        (((0,), (1,)), ((0,), (1,))),
    ]

    def gen(tier):
        for name in names:
            for (s1, c1), (s2, c2) in pairs:
                k = "pos" if name in ("pow", "floor_divide", "remainder", "bitwise_left_shift", "bitwise_right_shift") else "distinct"
                yield [inp(s1, c1, dtype, k), inp(s2, c2, dtype, k)], dict(fn=name)
    return gen


def _binref(ns, p):
    a, b = ns
    fn = p["fn"]
    if fn in ("bitwise_left_shift", "bitwise_right_shift"):
        b = b % 5
    if fn == "pow":
        a = np.abs(a) % 5 + 1 if a.dtype.kind == "f" else a
        b = b % 3
    return npf(fn)(a, b)


def _binbuild(xs, p):
    a, b = xs
    fn = p["fn"]
    m = xp()
    if fn in ("bitwise_left_shift", "bitwise_right_shift"):
        b = m.remainder(b, m.asarray(5, dtype=b.dtype, spec=b.spec))
    if fn == "pow":
        if a.dtype.kind == "f":
            a = m.add(m.remainder(m.abs(a), m.asarray(5.0, spec=a.spec)), m.asarray(1.0, spec=a.spec))
        b = m.remainder(b, m.asarray(3, dtype=b.dtype, spec=b.spec))
    return getattr(m, fn)(a, b)


reg("binary_float", gen_binary_names(FLOAT_BINARY, "float64"), _binbuild, _binref, group="elementwise", close=True)
reg("binary_int", gen_binary_names(INT_BINARY, "int32"), _binbuild, _binref, group="elementwise")
reg("binary_bool", gen_binary_names(BOOL_BINARY, "bool"), _binbuild, _binref, group="elementwise")


def gen_subtract_all(tier):
    # same shape, both operands chunked independently (all pairs)
    dims = D(tier)
    for shape, c1 in geoms(1, dims) + geoms(2, dims if tier == "thorough" else SD + (0,)):
        for c2 in itertools.product(*[chunkings_1d(n) for n in shape]):
            yield [inp(shape, c1), inp(shape, c2)], {}
    # all broadcasting pairs, every chunking of each
    for s1, s2 in broadcast_pairs((1, 2, 3)):
        for c1 in itertools.product(*[chunkings_1d(n) for n in s1]):
            for c2 in itertools.product(*[chunkings_1d(n) for n in s2]):
                yield [inp(s1, c1), inp(s2, c2)], {}


reg("subtract_allgeom", gen_subtract_all, lambda xs, p: xp().subtract(xs[0], xs[1]), lambda ns, p: ns[0] - ns[1], group="elementwise")


def gen_where(tier):
    dims = (1, 2, 3) if tier == "quick" else QD
    for shape, c1 in geoms(1, D(tier)) + geoms(2, dims):
        for c2 in itertools.product(*[chunkings_1d(n) for n in shape]):
            c3 = tuple(max(1, n) for n in shape)
            yield [inp(shape, c1, "bool"), inp(shape, c2), inp(shape, c3)], {}
    yield [inp((3, 1), (2, 1), "bool"), inp((1, 4), (1, 3)), inp((), ())], {}
    yield [inp((), (), "bool"), inp((3,), (2,)), inp((2, 3), (1, 1))], {}


reg("where", gen_where, lambda xs, p: xp().where(xs[0], xs[1], xs[2]), lambda ns, p: np.where(ns[0], ns[1], ns[2]), group="elementwise")


def gen_clip(tier):
    for shape, chunks in FIXED_GEOMS:
        for lo, hi in ((None, 3.0), (-2.0, None), (-4.0, 5.0), (None, None)):
            yield [inp(shape, chunks)], dict(min=lo, max=hi)
    yield [inp((5,), (2,)), inp((5,), (3,)), inp((5,), (5,))], dict(arr=True)
    # bounds given as 0-d cubed arrays (must stay lazy)
    yield [inp((5,), (2,)), inp((), ()), inp((), ())], dict(arr=True, sorted_bounds=True)
    yield [inp((3, 4), (2, 2)), inp((), ()), inp((), ())], dict(arr=True, sorted_bounds=True)


def _clip_build(xs, p):
    if p.get("arr"):
        return xp().clip(xs[0], xs[1], xs[2])
    return xp().clip(xs[0], p["min"], p["max"])


def _clip_ref(ns, p):
    if p.get("arr"):
        return np.clip(ns[0], ns[1], ns[2])
    if p["min"] is None and p["max"] is None:
        return ns[0]
    return np.clip(ns[0], p["min"], p["max"])


reg("clip", gen_clip, _clip_build, _clip_ref, group="elementwise")

# operators incl. reflected scalar forms
OPERATORS = {
    "add": lambda a, b: a + b, "sub": lambda a, b: a - b, "mul": lambda a, b: a * b, "truediv": lambda a, b: a / b,
    "floordiv": lambda a, b: a // b, "mod": lambda a, b: a % b, "lt": lambda a, b: a < b, "le": lambda a, b: a <= b,
    "eq": lambda a, b: a == b, "ne": lambda a, b: a != b, "gt": lambda a, b: a > b, "ge": lambda a, b: a >= b,
}
UNOPS = {"neg": lambda a: -a, "pos": lambda a: +a, "abs": lambda a: abs(a)}


def gen_operators(tier):
    g = [((5,), (2,)), ((3, 4), (2, 3)), ((), ())]
    for name in OPERATORS:
        for s, c in g:
            yield [inp(s, c, kind="pos"), inp(s, tuple(max(1, n) for n in s), kind="pos")], dict(op=name, form="aa")
            yield [inp(s, c, kind="pos")], dict(op=name, form="as", scalar=3.0)
            yield [inp(s, c, kind="pos")], dict(op=name, form="sa", scalar=3.0)
    for name in UNOPS:
        for s, c in g:
            yield [inp(s, c)], dict(op=name, form="u")
    for name in ("and", "or", "xor", "lshift", "rshift", "invert", "pow", "matmul", "T", "mT"):
        yield [inp((3, 4), (2, 3), "int32", "pos"), inp((3, 4), (3, 2), "int32", "pos")], dict(op=name, form="x")


def _opfn(p):
    name = p["op"]
    extra = {"and": lambda a, b: a & b, "or": lambda a, b: a | b, "xor": lambda a, b: a ^ b,
             "lshift": lambda a, b: a << (b % 5), "rshift": lambda a, b: a >> (b % 5), "invert": lambda a, b: ~a,
             "pow": lambda a, b: a ** (b % 3), "matmul": lambda a, b: a @ b.T, "T": lambda a, b: a.T, "mT": lambda a, b: a.mT if hasattr(a, "mT") else np.swapaxes(a, -1, -2)}
    if p["form"] == "x":
        return lambda xs: extra[name](xs[0], xs[1])
    if p["form"] == "u":
        return lambda xs: UNOPS[name](xs[0])
    f = OPERATORS[name]
    if p["form"] == "aa":
        return lambda xs: f(xs[0], xs[1])
    if p["form"] == "as":
        return lambda xs: f(xs[0], p["scalar"])
    return lambda xs: f(p["scalar"], xs[0])


reg("operators", gen_operators, lambda xs, p: _opfn(p)(xs), lambda ns, p: _opfn(p)(ns), group="elementwise")


# ----------------------------------------------------------------- reductions
def axes_for(nd, tuples=True):
    out = [None] + list(range(nd))
    if nd >= 1:
        out.append(-1)
    if tuples and nd >= 2:
        out.append(list(range(nd)))
        out.append([0, nd - 1] if nd > 2 else [1, 0])
    return out


MINI = [((5,), (2,)), ((7,), (1,)), ((6,), (6,)), ((3, 4), (2, 3)), ((5, 3), (1, 2)), ((6, 2), (1, 1)), ((2, 7), (2, 2))]


def gen_reduction(full, arg=False, dtype="float64", kind="distinct", maxnd=2):
    def gen(tier):
        gs = G1(tier, maxnd if (full or tier == "thorough") else 2, small=not full)
        if tier == "quick" and full is not True:
            gs = MINI if not full else G1(tier, 2, small=True)
        if full is True and tier == "thorough":
            gs = gs + geoms(3, (1, 2, 3)) + geoms(4, (1, 2))
        for shape, chunks in gs + [((), ())]:
            nd = len(shape)
            for axis in ([None] + list(range(nd)) + ([-1] if nd else []) if arg else axes_for(nd)):
                if axis == -1 and not full:
                    continue
                variants = [(False, None), (True, None), (False, 2), (False, 3)]
                if full is True and tier == "thorough":
                    variants += [(True, 2), (False, 4)]
                if full is True and nd >= 2 and (axis is None or isinstance(axis, list)):
                    # split_every given per axis (list of [axis, fan-in] pairs -> dict), naming only some of the reduced axes
                    variants += [(False, [[0, 2]]), (False, [[nd - 1, 3]]), (True, [[-1, 2]])]
                for keepdims, se in variants:
                    if any(n == 0 for n in shape) and arg:
                        continue
                    yield [inp(shape, chunks, dtype, kind)], dict(axis=axis, keepdims=keepdims, split_every=se)
    return gen


def _red_build(name, ns_cubed=False):
    def build(xs, p):
        m = cb() if name.startswith("nan") else xp()
        kw = dict(axis=_t(p["axis"]), keepdims=p["keepdims"])
        if p.get("split_every") is not None:
            se = p["split_every"]
            kw["split_every"] = {int(k): int(v) for k, v in se} if isinstance(se, list) else se
        return getattr(m, name)(xs[0], **kw)
    return build


def _red_ref(name):
    def ref(ns, p):
        f = dict(max=np.max, min=np.min, all=np.all, any=np.any).get(name) or getattr(np, name)
        return f(ns[0], axis=_t(p["axis"]), keepdims=p["keepdims"])
    return ref


for _name, _full, _close in (("sum", True, False), ("mean", "thor", True), ("max", False, False), ("min", False, False),
                              ("prod", False, True), ("var", False, True), ("std", False, True)):
    reg(_name, gen_reduction(_full), _red_build(_name), _red_ref(_name), close=_close, group="reduction")
reg("sum_int32", gen_reduction(False, dtype="int32"), _red_build("sum"), _red_ref("sum"), group="reduction")
reg("sum_uint8", gen_reduction(False, dtype="uint8"), _red_build("sum"),
    lambda ns, p: np.sum(ns[0], axis=_t(p["axis"]), keepdims=p["keepdims"], dtype=np.uint64), group="reduction")
reg("sum_float32", gen_reduction(False, dtype="float32"), _red_build("sum"), _red_ref("sum"), close=True, group="reduction")
reg("mean_float32", gen_reduction(False, dtype="float32"), _red_build("mean"), _red_ref("mean"), close=True, group="reduction")
reg("var_float32", gen_reduction(False, dtype="float32"), _red_build("var"), _red_ref("var"), close=True, group="reduction")
reg("all", gen_reduction(False, dtype="bool"), _red_build("all"), _red_ref("all"), group="reduction")
reg("any", gen_reduction(False, dtype="bool"), _red_build("any"), _red_ref("any"), group="reduction")
reg("count_nonzero", gen_reduction(False, dtype="bool"), _red_build("count_nonzero"), _red_ref("count_nonzero"), group="reduction")
reg("argmax", gen_reduction(True, arg=True), _red_build("argmax"), _red_ref("argmax"), group="reduction")
reg("argmin", gen_reduction(False, arg=True), _red_build("argmin"), _red_ref("argmin"), group="reduction")
for _name in ("nansum", "nanmean", "nanmax", "nanmin", "nanprod", "nanvar", "nanstd"):
    reg(_name, gen_reduction(False, kind="nan"), _red_build(_name), _red_ref(_name), close=True, group="reduction")
reg("nanargmax", gen_reduction(False, arg=True, kind="distinct"), _red_build("nanargmax"), _red_ref("nanargmax"), group="reduction")
reg("nanargmin", gen_reduction(False, arg=True, kind="distinct"), _red_build("nanargmin"), _red_ref("nanargmin"), group="reduction")


def gen_var_corr(tier):
    for shape, chunks in [((5,), (2,)), ((3, 4), (2, 3)), ((7,), (1,))]:
        for corr in (0.0, 1.0):
            for axis in [None] + list(range(len(shape))):
                yield [inp(shape, chunks)], dict(axis=axis, correction=corr)


reg("var_correction", gen_var_corr,
    lambda xs, p: xp().var(xs[0], axis=p["axis"], correction=p["correction"]),
    lambda ns, p: np.var(ns[0], axis=p["axis"], ddof=p["correction"]), close=True, group="reduction")
reg("std_correction", gen_var_corr,
    lambda xs, p: xp().std(xs[0], axis=p["axis"], correction=p["correction"]),
    lambda ns, p: np.std(ns[0], axis=p["axis"], ddof=p["correction"]), close=True, group="reduction")


def gen_nanmedian(tier):
    for shape, chunks in geoms(1, SD) + geoms(2, SD):
        for axis in list(range(len(shape))):
            for kd in (False, True):
                yield [inp(shape, chunks, kind="nan")], dict(axis=axis, keepdims=kd)


reg("nanmedian", gen_nanmedian, lambda xs, p: cb().nanmedian(xs[0], axis=p["axis"], keepdims=p["keepdims"]),
    lambda ns, p: np.nanmedian(ns[0], axis=p["axis"], keepdims=p["keepdims"]), close=True, group="reduction")


# ----------------------------------------------------------------- scans
def gen_scan(kind="distinct"):
    def gen(tier):
        mx = 13 if tier == "quick" else 27
        for n in range(0, mx + 1):
            for c in ([1, 2, 3] if n > 7 else chunkings_1d(n)):
                if c > max(n, 1):
                    continue
                for ii in (False, True):
                    yield [inp((n,), (c,), kind=kind)], dict(axis=0, include_initial=ii)
                yield [inp((n,), (c,), kind=kind)], dict(axis=None, include_initial=False)
        for shape, chunks in geoms(2, SD if tier == "quick" else QD):
            for axis in (0, 1, -1):
                for ii in (False, True):
                    yield [inp(shape, chunks, kind=kind)], dict(axis=axis, include_initial=ii)
        if tier == "thorough":
            for shape, chunks in [((7, 2), (1, 1)), ((2, 11), (1, 1)), ((6, 3), (1, 2)), ((2, 3, 6), (1, 2, 1))]:
                for axis in range(len(shape)):
                    yield [inp(shape, chunks, kind=kind)], dict(axis=axis, include_initial=False)
    return gen


def _scan_ref(f, init):
    def ref(ns, p):
        a = ns[0]
        ax = p["axis"]
        if ax is None:
            if a.ndim != 1:
                raise ValueError("axis required")
            ax = 0
        r = f(a, axis=ax)
        if p.get("include_initial"):
            pad = [(0, 0)] * a.ndim
            pad[ax] = (1, 0)
            r = np.pad(r, pad, constant_values=init)
        return r
    return ref


reg("cumulative_sum", gen_scan(), lambda xs, p: xp().cumulative_sum(xs[0], axis=p["axis"], include_initial=p["include_initial"]),
    _scan_ref(np.cumsum, 0), group="scan")
reg("cumulative_prod", gen_scan("unit"), lambda xs, p: xp().cumulative_prod(xs[0], axis=p["axis"], include_initial=p["include_initial"]),
    _scan_ref(np.cumprod, 1), close=True, group="scan")


def gen_nanscan(tier):
    for n in range(1, (9 if tier == "quick" else 14)):
        for c in chunkings_1d(n)[:3]:
            yield [inp((n,), (c,), kind="nan")], dict(axis=0)
    for shape, chunks in geoms(2, SD):
        for axis in (0, 1):
            yield [inp(shape, chunks, kind="nan")], dict(axis=axis)


reg("nancumsum", gen_nanscan, lambda xs, p: cb().nancumsum(xs[0], axis=p["axis"]), lambda ns, p: np.nancumsum(ns[0], axis=p["axis"]), group="scan")
reg("nancumprod", gen_nanscan, lambda xs, p: cb().nancumprod(xs[0], axis=p["axis"]), lambda ns, p: np.nancumprod(ns[0], axis=p["axis"]), close=True, group="scan")


def gen_diff(tier):
    for shape, chunks in geoms(1, D(tier)) + geoms(2, SD):
        for axis in range(-1, len(shape) - 1 if len(shape) > 1 else 0):
            for n in (1, 2):
                yield [inp(shape, chunks)], dict(axis=axis, n=n)
    # prepend / append (concatenated before differencing: chunk sizes along the axis must match)
    for n in (1, 2):
        for which in ("pa", "p", "a"):
            yield [inp((6,), (2,)), inp((2,), (2,)), inp((4,), (2,))], dict(axis=0, n=n, pa=which)
            yield [inp((5,), (5,)), inp((5,), (5,)), inp((5,), (5,))], dict(axis=0, n=n, pa=which)
            yield [inp((4, 3), (2, 3)), inp((2, 3), (2, 3)), inp((2, 3), (2, 3))], dict(axis=0, n=n, pa=which)
            yield [inp((3, 4), (3, 2)), inp((3, 2), (3, 2)), inp((3, 2), (3, 2))], dict(axis=1, n=n, pa=which)


def _diff_kw(args, p):
    kw = {}
    if p.get("pa") in ("pa", "p", True):
        kw["prepend"] = args[1]
    if p.get("pa") in ("pa", "a", True):
        kw["append"] = args[2]
    return kw


def _diff_build(xs, p):
    return xp().diff(xs[0], axis=p["axis"], n=p["n"], **_diff_kw(xs, p))


def _diff_ref(ns, p):
    return np.diff(ns[0], axis=p["axis"], n=p["n"], **_diff_kw(ns, p))


reg("diff", gen_diff, _diff_build, _diff_ref, group="scan")


# ----------------------------------------------------------------- manipulation
def gen_concat(tier):
    dims = (0, 1, 2, 3) if tier == "quick" else (0, 1, 2, 3, 5)
    # 1-D: two arrays of every length/chunking
    for n1 in dims:
        for c1 in chunkings_1d(n1):
            for n2 in dims:
                for c2 in chunkings_1d(n2):
                    yield [inp((n1,), (c1,)), inp((n2,), (c2,))], dict(axis=0)
    # three arrays
    for c in itertools.product((1, 2), (1, 3), (1, 2)):
        yield [inp((2,), (c[0],)), inp((3,), (c[1],)), inp((2,), (c[2],))], dict(axis=0)
    # 2-D along each axis, differently chunked
    for (s1, c1) in geoms(2, (1, 2, 3)):
        for ax in (0, 1, -1):
            other = list(s1)
            other[ax] = 2
            for c2 in itertools.product(*[chunkings_1d(n) for n in other]):
                yield [inp(s1, c1), inp(tuple(other), c2)], dict(axis=ax)
    yield [inp((2, 3), (1, 2)), inp((2, 3), (2, 1))], dict(axis=None)
    yield [inp((4,), (2,)), inp((4,), (2,))], dict(axis=0, chunks=[3])


def _concat_build(xs, p):
    kw = dict(axis=p["axis"])
    if "chunks" in p:
        kw["chunks"] = _t(p["chunks"])
    return xp().concat(list(xs), **kw)


reg("concat", gen_concat, _concat_build, lambda ns, p: np.concatenate(list(ns), axis=p["axis"]), group="manip")


def gen_stack(tier):
    dims = (0, 1, 2, 3) if tier == "quick" else QD
    for shape, c1 in geoms(1, D(tier)) + geoms(2, dims):
        for c2 in itertools.product(*[chunkings_1d(n) for n in shape]):
            for ax in range(-1, len(shape) + 1):
                if tier == "quick" and len(shape) == 2 and ax == -1:
                    continue
                yield [inp(shape, c1), inp(shape, c2)], dict(axis=ax)
    yield [inp((3,), (2,)), inp((3,), (1,)), inp((3,), (3,))], dict(axis=0)
    yield [inp((), ()), inp((), ())], dict(axis=0)
    # shape mismatch: numpy refuses (not counted)
    yield [inp((3,), (2,)), inp((4,), (2,))], dict(axis=0)


reg("stack", gen_stack, lambda xs, p: xp().stack(list(xs), axis=p["axis"]), lambda ns, p: np.stack(list(ns), axis=p["axis"]), group="manip")


def gen_unary_axis(maxnd=2, extra=None):
    def gen(tier):
        for shape, chunks in G1(tier, maxnd):
            for ax in range(-1, len(shape)):
                yield [inp(shape, chunks)], dict(axis=ax)
    return gen


reg("expand_dims", lambda tier: (([inp(s, c)], dict(axis=ax)) for s, c in [((), ())] + G1(tier, 2) for ax in range(-len(s) - 1, len(s) + 1)),
    lambda xs, p: xp().expand_dims(xs[0], axis=p["axis"]), lambda ns, p: np.expand_dims(ns[0], p["axis"]), group="manip")


def gen_flip(tier):
    for shape, chunks in G1(tier, 3 if tier == "thorough" else 2):
        for ax in [None] + list(range(len(shape))) + ([[0, 1]] if len(shape) >= 2 else []):
            yield [inp(shape, chunks)], dict(axis=ax)


reg("flip", gen_flip, lambda xs, p: xp().flip(xs[0], axis=_t(p["axis"])), lambda ns, p: np.flip(ns[0], axis=_t(p["axis"])), group="manip")


def gen_perm(tier):
    for shape, chunks in G1(tier, 3):
        for axes in itertools.permutations(range(len(shape))):
            yield [inp(shape, chunks)], dict(axes=list(axes))


reg("permute_dims", gen_perm, lambda xs, p: xp().permute_dims(xs[0], _t(p["axes"])), lambda ns, p: np.transpose(ns[0], _t(p["axes"])), group="manip")
reg("moveaxis", lambda tier: (([inp(s, c)], dict(src=a, dst=b)) for s, c in geoms(2, SD) + geoms(3, (1, 2) if tier == "quick" else (1, 2, 3)) for a in range(len(s)) for b in range(-1, len(s))),
    lambda xs, p: xp().moveaxis(xs[0], p["src"], p["dst"]), lambda ns, p: np.moveaxis(ns[0], p["src"], p["dst"]), group="manip")
reg("matrix_transpose", lambda tier: (([inp(s, c)], {}) for s, c in geoms(2, D(tier)) + geoms(3, (1, 2, 3))),
    lambda xs, p: xp().matrix_transpose(xs[0]), lambda ns, p: np.swapaxes(ns[0], -1, -2), group="manip")


def gen_repeat(tier):
    for shape, chunks in geoms(1, D(tier)) + geoms(2, SD if tier == "quick" else QD):
        for ax in list(range(len(shape))) + ([None] if len(shape) == 1 else []):
            for r in (0, 1, 2, 3):
                yield [inp(shape, chunks)], dict(repeats=r, axis=ax)


reg("repeat", gen_repeat, lambda xs, p: xp().repeat(xs[0], p["repeats"], axis=p["axis"]), lambda ns, p: np.repeat(ns[0], p["repeats"], axis=p["axis"]), group="manip")


def gen_tile(tier):
    for shape, chunks in geoms(1, SD) + geoms(2, SD):
        for reps in ([1], [2], [3], [2, 1], [1, 2], [2, 3], [2, 1, 2], [0], [0, 2], [2, 0], [1, 0, 1], [-1]):
            yield [inp(shape, chunks)], dict(reps=reps)


reg("tile", gen_tile, lambda xs, p: xp().tile(xs[0], _t(p["reps"])), lambda ns, p: np.tile(ns[0], _t(p["reps"])), group="manip")


def gen_roll(tier):
    for shape, chunks in geoms(1, D(tier)) + geoms(2, SD if tier == "quick" else QD):
        nd = len(shape)
        for ax in [None] + list(range(nd)):
            for sh in (-4, -1, 0, 1, 2, 3, 7):
                yield [inp(shape, chunks)], dict(shift=sh, axis=ax)
        if nd == 2:
            yield [inp(shape, chunks)], dict(shift=[1, -2], axis=[0, 1])


reg("roll", gen_roll, lambda xs, p: xp().roll(xs[0], _t(p["shift"]), axis=_t(p["axis"])), lambda ns, p: np.roll(ns[0], _t(p["shift"]), axis=_t(p["axis"])), group="manip")


def _factor_shapes(n, maxnd=3):
    out = {(n,)}
    for a in range(1, n + 1):
        if n % a == 0:
            out.add((a, n // a))
            for b in range(1, n // a + 1):
                if (n // a) % b == 0:
                    out.add((a, b, n // a // b))
    return sorted(out)


def gen_reshape(tier):
    sizes = (1, 4, 6) if tier == "quick" else (0, 1, 4, 6, 8, 12, 18)
    for n in sizes:
        shapes = _factor_shapes(n) if n else [(0,), (0, 3), (2, 0)]
        for s1 in shapes:
            for c1 in itertools.product(*[chunkings_1d(k) for k in s1]):
                if tier == "quick" and len(s1) == 3 and any(c not in (1, k) for c, k in zip(c1, s1)):
                    continue
                for s2 in shapes:
                    yield [inp(s1, c1)], dict(shape=list(s2))
    yield [inp((4, 3), (2, 3))], dict(shape=[-1])
    yield [inp((4, 3), (2, 3))], dict(shape=[2, -1])
    yield [inp((), ())], dict(shape=[1, 1])
    yield [inp((1,), (1,))], dict(shape=[])


reg("reshape", gen_reshape, lambda xs, p: xp().reshape(xs[0], _t(p["shape"])), lambda ns, p: np.reshape(ns[0], _t(p["shape"])), group="manip")
reg("squeeze", lambda tier: (([inp(s, c)], dict(axis=ax)) for s, c in geoms(2, (1, 2, 3)) + geoms(3, (1, 2)) for ax in list(range(len(s))) + [[0, len(s) - 1]]
                              if all(s[a] == 1 for a in (ax if isinstance(ax, list) else [ax])) or s == (2, 3)),
    lambda xs, p: xp().squeeze(xs[0], axis=_t(p["axis"])), lambda ns, p: np.squeeze(ns[0], axis=_t(p["axis"])), group="manip")
reg("unstack", gen_unary_axis(2), lambda xs, p: xp().unstack(xs[0], axis=p["axis"]),
    lambda ns, p: tuple(np.moveaxis(ns[0], p["axis"], 0)), group="manip", multi=True)


def gen_broadcast_to(tier):
    for s in [(), (1,), (3,), (1, 3), (3, 1), (2, 3)]:
        for c in itertools.product(*[chunkings_1d(n) for n in s]):
            for tgt in [(3,), (2, 3), (3, 3), (2, 1, 3), (4, 2, 3), (0, 3), (2, 3, 3)]:
                yield [inp(s, c)], dict(shape=list(tgt))
    yield [inp((1, 3), (1, 2))], dict(shape=[4, 3], chunks=[3, 2])


def _bt_build(xs, p):
    kw = {}
    if "chunks" in p:
        kw["chunks"] = _t(p["chunks"])
    return xp().broadcast_to(xs[0], _t(p["shape"]), **kw)


reg("broadcast_to", gen_broadcast_to, _bt_build, lambda ns, p: np.broadcast_to(ns[0], _t(p["shape"])), group="manip")
reg("broadcast_arrays", lambda tier: (([inp(s1, tuple(max(1, (n + 1) // 2) for n in s1)), inp(s2, tuple(max(1, n) for n in s2))], {}) for s1, s2 in broadcast_pairs((1, 3))),
    lambda xs, p: tuple(xp().broadcast_arrays(*xs)), lambda ns, p: tuple(np.broadcast_arrays(*ns)), group="manip", multi=True)
reg("meshgrid", lambda tier: (([inp((n1,), (c1,)), inp((n2,), (c2,))], dict(indexing=ix)) for n1 in (1, 3) for c1 in chunkings_1d(n1) for n2 in (2, 3) for c2 in chunkings_1d(n2) for ix in ("xy", "ij")),
    lambda xs, p: tuple(xp().meshgrid(*xs, indexing=p["indexing"])), lambda ns, p: tuple(np.meshgrid(*ns, indexing=p["indexing"])), group="manip", multi=True)


# ----------------------------------------------------------------- indexing
def slice_grid(n):
    vals = [None, 0, 1, 2, -1, -2, n, n + 2]
    steps = [None, 1, 2, 3, -1, -2]
    out = []
    for a in vals:
        for b in vals:
            for s in steps:
                out.append([a, b, s])
    return out


def _key(p):
    out = []
    for k in p["key"]:
        if isinstance(k, dict):
            if "slice" in k:
                out.append(slice(*k["slice"]))
            elif "arr" in k:
                out.append(np.asarray(k["arr"], dtype=np.int64))
            elif "new" in k:
                out.append(None)
            elif "ell" in k:
                out.append(Ellipsis)
        else:
            out.append(k)
    return tuple(out)


def gen_index(tier):
    ns = (0, 1, 2, 3, 5) if tier == "quick" else (0, 1, 2, 3, 4, 5, 7)
    # 1-D: every slice from the grid, every chunking
    for n in ns:
        seen = set()
        for sl in slice_grid(n):
            r = tuple(range(n)[slice(*sl)])
            key = (r, sl[2] is not None and sl[2] < 0)
            if key in seen:
                continue
            seen.add(key)
            for c in chunkings_1d(n):
                yield [inp((n,), (c,))], dict(key=[dict(slice=sl)])
        for c in chunkings_1d(n):
            for i in range(-n, n):
                yield [inp((n,), (c,))], dict(key=[i])
            if n:
                for arr in ([0], [n - 1, 0], list(range(n))[::-1], [0, 0, n - 1], [-1, 0]):
                    yield [inp((n,), (c,))], dict(key=[dict(arr=arr)])
    # 2-D: combinations of slice kinds on both axes
    kinds = [dict(slice=[None, None, None]), dict(slice=[1, None, None]), dict(slice=[None, None, 2]), dict(slice=[None, None, -1]),
             dict(slice=[1, 4, 2]), dict(slice=[None, -1, 3]), 0, -1, dict(arr=[2, 0]), dict(slice=[4, 1, -2])]
    if tier == "quick":
        kinds = kinds[:3] + kinds[4:5] + kinds[6:9]
    for shape, chunks in ([g for g in geoms(2, (3, 5)) if g[0][0] != g[0][1]] if tier == "quick" else geoms(2, (3, 5)) + geoms(2, (1, 2, 4, 7))):
        for k0 in kinds:
            for k1 in kinds:
                if isinstance(k0, dict) and "arr" in k0 and isinstance(k1, dict) and "arr" in k1:
                    continue
                yield [inp(shape, chunks)], dict(key=[k0, k1])
        yield [inp(shape, chunks)], dict(key=[dict(new=1), dict(slice=[None, None, None])])
        yield [inp(shape, chunks)], dict(key=[dict(ell=1), 1])
        yield [inp(shape, chunks)], dict(key=[1])
        yield [inp(shape, chunks)], dict(key=[dict(slice=[1, None, None]), dict(new=1)])
    for shape, chunks in geoms(3, (2, 3)):
        yield [inp(shape, chunks)], dict(key=[dict(slice=[None, None, -1]), 1, dict(slice=[1, None, None])])
        yield [inp(shape, chunks)], dict(key=[dict(ell=1), dict(slice=[None, None, 2])])
        yield [inp(shape, chunks)], dict(key=[dict(arr=[1, 0]), dict(slice=[None, None, None]), 0])


def gen_index_newaxis(tier):
    """every placement of one or two new axes among integer / slice / ellipsis entries"""
    full, tail = dict(slice=[None, None, None]), dict(slice=[1, None, None])
    new, ell = dict(new=1), dict(ell=1)
    for nd, gs in ((2, [((3, 4), (2, 3)), ((4, 4), (1, 2))]), (3, [((2, 3, 4), (1, 2, 3))] + ([((3, 2, 3), (2, 2, 2))] if tier == "thorough" else []))):
        for shape, chunks in gs:
            seen = set()
            for base in itertools.product([full, 1, tail, -1], repeat=nd):
                if tier == "quick" and sum(1 for b in base if b == -1) > 1:
                    continue
                pos = list(range(nd + 1))
                places = [(a,) for a in pos] + [(a, b) for a in pos for b in pos if a <= b]
                for pl in places:
                    key = list(base)
                    for off, a in enumerate(sorted(pl)):
                        key.insert(a + off, new)
                    k = json.dumps(key)
                    if k not in seen:
                        seen.add(k)
                        yield [inp(shape, chunks)], dict(key=key)
            for key in ([ell, new, 1], [1, ell, new], [new, ell, 1], [ell, 1, new], [ell, new], [new, ell], [full, new, ell, 0], [ell, new, tail, 1], [0, new, ell, new, 1]):
                yield [inp(shape, chunks)], dict(key=key)


reg("getitem_newaxis", gen_index_newaxis, lambda xs, p: xs[0][_key(p)], lambda ns, p: ns[0][_key(p)], group="index")
reg("getitem", gen_index, lambda xs, p: xs[0][_key(p)], lambda ns, p: ns[0][_key(p)], group="index")


def gen_take(tier):
    for shape, chunks in geoms(1, SD) + geoms(2, SD):
        for ax in range(len(shape)):
            n = shape[ax]
            for idx in ([0], [n - 1, 0], list(range(n))[::-1], [0, 0]):
                yield [inp(shape, chunks)], dict(indices=idx, axis=ax)


reg("take", gen_take, lambda xs, p: xp().take(xs[0], xp().asarray(np.asarray(p["indices"]), spec=xs[0].spec), axis=p["axis"]),
    lambda ns, p: np.take(ns[0], p["indices"], axis=p["axis"]), group="index")


def gen_blocks(tier):
    for shape, chunks in geoms(1, (3, 5)) + geoms(2, (3, 5)):
        nb = tuple(-(-n // c) for n, c in zip(shape, chunks))
        keys = [[0] * len(shape), [b - 1 for b in nb], [dict(slice=[None, None, None])] * len(shape)]
        if nb[0] > 1:
            keys.append([dict(slice=[1, None, None])] + [dict(slice=[None, None, None])] * (len(shape) - 1))
            keys.append([dict(slice=[0, nb[0] - 1, None])] + [0] * (len(shape) - 1))
        for k in keys:
            yield [inp(shape, chunks)], dict(key=k)


def _blocks_ref(ns, p):
    # reference: translate block key to element slices
    a = ns[0]
    chunks = p["_chunks"]
    sl = []
    for k, n, c in zip(_key(p), a.shape, chunks):
        nb = -(-n // c)
        if isinstance(k, slice):
            r = range(nb)[k]
            assert r.step == 1
            sl.append(slice(r.start * c, min(r.stop * c, n)))
        else:
            k = k % nb
            sl.append(slice(k * c, min((k + 1) * c, n)))
    return a[tuple(sl)]


reg("blocks", lambda tier: ((i, dict(p, _chunks=i[0]["chunks"])) for i, p in gen_blocks(tier)),
    lambda xs, p: xs[0].blocks[_key(p)], _blocks_ref, group="index")


# ----------------------------------------------------------------- linear algebra
def gen_matmul(tier):
    dims = (1, 2, 3) if tier == "quick" else (1, 2, 3, 5)
    for m in dims:
        for k in dims:
            for n in dims:
                for c1 in itertools.product(chunkings_1d(m), chunkings_1d(k)):
                    for c2 in itertools.product(chunkings_1d(k), chunkings_1d(n)):
                        if tier == "quick" and (m, k, n).count(3) + (m, k, n).count(5) > 2:
                            continue
                        yield [inp((m, k), c1), inp((k, n), c2)], {}
    for k in (1, 3, 5):
        for c1 in chunkings_1d(k):
            for c2 in chunkings_1d(k):
                yield [inp((k,), (c1,)), inp((k,), (c2,))], {}
                yield [inp((2, k), (1, c1)), inp((k,), (c2,))], {}
                yield [inp((k,), (c1,)), inp((k, 2), (c2, 1))], {}
    yield [inp((2, 3, 4), (1, 2, 3)), inp((2, 4, 2), (2, 2, 1))], {}
    yield [inp((2, 3, 4), (1, 2, 3)), inp((4, 2), (3, 2))], {}
    for se in (2, 3):
        yield [inp((3, 7), (2, 1)), inp((7, 2), (1, 1))], dict(split_every=se)


reg("matmul", gen_matmul, lambda xs, p: xp().matmul(xs[0], xs[1], **({"split_every": p["split_every"]} if "split_every" in p else {})),
    lambda ns, p: np.matmul(ns[0], ns[1]), group="linalg")


def gen_tensordot(tier):
    for c1 in geoms(2, (3,)) + geoms(2, (2, 5))[:12]:
        for c2 in geoms(2, (3,))[:5]:
            s1, k1 = c1
            s2, k2 = c2
            for axes in (1, 2, 0, [[0], [0]], [[1], [0]], [[0, 1], [1, 0]], [[1], [1]]):
                yield [inp(s1, k1), inp(s2, k2)], dict(axes=axes)
    yield [inp((2, 3, 4), (1, 2, 3)), inp((4, 3, 2), (2, 1, 1))], dict(axes=[[1, 2], [1, 0]])


reg("tensordot", gen_tensordot, lambda xs, p: xp().tensordot(xs[0], xs[1], axes=_t(p["axes"])), lambda ns, p: np.tensordot(ns[0], ns[1], axes=_t(p["axes"])), group="linalg")


def gen_vecdot(tier):
    for shape, c1 in geoms(1, (1, 3, 5)) + geoms(2, (2, 3)):
        for c2 in itertools.product(*[chunkings_1d(n) for n in shape]):
            for ax in range(-1, len(shape) - 1 if len(shape) > 1 else 0):
                yield [inp(shape, c1), inp(shape, c2)], dict(axis=ax)
    yield [inp((2, 3), (1, 2)), inp((3,), (3,))], dict(axis=-1)


reg("vecdot", gen_vecdot, lambda xs, p: xp().vecdot(xs[0], xs[1], axis=p["axis"]),
    lambda ns, p: np.sum(ns[0] * ns[1], axis=p["axis"]), group="linalg")
reg("outer", lambda tier: (([inp((n1,), (c1,)), inp((n2,), (c2,))], {}) for n1 in (1, 3, 5) for c1 in chunkings_1d(n1) for n2 in (2, 3) for c2 in chunkings_1d(n2)),
    lambda xs, p: xp().linalg.outer(xs[0], xs[1]), lambda ns, p: np.outer(ns[0], ns[1]), group="linalg")


def gen_qr(tier):
    mm = 9 if tier == "quick" else 12
    for m in range(1, mm + 1):
        for n in range(1, 5):
            for rc in chunkings_1d(m):
                yield [inp((m, n), (rc, n), kind="frac")], {}
    yield [inp((6, 4), (3, 2), kind="frac")], {}  # column chunking: must be refused or correct


def _qr_data(a):
    # make full-rank, well conditioned: a + diag bump
    return a


def _judge_qr(ns, outs, p):
    a = ns[0].astype(np.float64)
    q, r = outs
    m, n = a.shape
    k = min(m, n)
    if q.shape != (m, k) or r.shape != (k, n):
        return f"shapes Q{q.shape} R{r.shape} for A{a.shape}"
    if not np.allclose(q @ r, a, atol=1e-8 * max(1, np.abs(a).max())):
        return "Q@R != A"
    if not np.allclose(q.T @ q, np.eye(k), atol=1e-8):
        return "Q not orthonormal"
    if not np.allclose(np.tril(r, -1), 0, atol=1e-8 * max(1, np.abs(a).max())):
        return "R not upper triangular"
    return None


reg("qr", gen_qr, lambda xs, p: tuple(xp().linalg.qr(xs[0])), lambda ns, p: tuple(np.linalg.qr(ns[0])), judge=_judge_qr, group="linalg", multi=True)


def _judge_svd(ns, outs, p):
    a = ns[0].astype(np.float64)
    u, s, vh = outs
    sref = np.linalg.svd(a, compute_uv=False)
    if s.shape != sref.shape or not np.allclose(s, sref, atol=1e-7 * max(1, sref.max(initial=1))):
        return f"singular values {s} vs {sref}"
    if not np.allclose((u * s) @ vh, a, atol=1e-7 * max(1, np.abs(a).max())):
        return "U S Vh != A"
    return None


def gen_svd(tier):
    for m in range(1, 8 if tier == "quick" else 11):
        for n in range(1, 4):
            for rc in chunkings_1d(m):
                yield [inp((m, n), (rc, n), kind="frac")], {}


reg("svd", gen_svd, lambda xs, p: tuple(xp().linalg.svd(xs[0], full_matrices=False)), lambda ns, p: tuple(np.linalg.svd(ns[0], full_matrices=False)),
    judge=_judge_svd, group="linalg", multi=True)
reg("svdvals", gen_svd, lambda xs, p: xp().linalg.svdvals(xs[0]), lambda ns, p: np.linalg.svd(ns[0], compute_uv=False), close=True, group="linalg")


# ----------------------------------------------------------------- searching / sets
def gen_searchsorted(tier):
    for n1 in (1, 3, 5):
        for c1 in chunkings_1d(n1):
            for s2, c2 in geoms(1, (1, 2, 5)) + geoms(2, (2, 3))[:6]:
                for side in ("left", "right"):
                    yield [inp((n1,), (c1,), kind="pos"), inp(s2, c2, kind="pos")], dict(side=side)


def _ss_data(ns):
    return np.sort(ns[0]), (ns[1] % 7).astype(ns[1].dtype)


reg("searchsorted", gen_searchsorted,
    lambda xs, p: xp().searchsorted(xs[0], xs[1], side=p["side"]),
    lambda ns, p: np.searchsorted(ns[0], ns[1], side=p["side"]), group="search")


def gen_isin(tier):
    for s1, c1 in geoms(1, (1, 3, 5)) + geoms(2, (2, 3)):
        for n2 in (1, 3):
            for c2 in chunkings_1d(n2):
                for inv in (False, True):
                    yield [inp(s1, c1, "int32", "pos"), inp((n2,), (c2,), "int32", "pos")], dict(invert=inv)


reg("isin", gen_isin, lambda xs, p: xp().isin(xs[0], xs[1], invert=p["invert"]), lambda ns, p: np.isin(ns[0], ns[1], invert=p["invert"]), group="search")


# ----------------------------------------------------------------- creation
def gen_creation(tier):
    for n in (0, 1, 5, 7):
        for c in chunkings_1d(n)[:4]:
            yield [], dict(fn="arange", args=[n], chunks=[c])
            yield [], dict(fn="arange", args=[1, n + 1, 2], chunks=[c])
            yield [], dict(fn="arange", args=[n, 0, -1], chunks=[c])
            yield [], dict(fn="arange", args=[n + 3, 1, -3], chunks=[c])
            yield [], dict(fn="linspace", args=[0.0, 1.0, n], chunks=[c])
            yield [], dict(fn="linspace", args=[0.0, 1.0, n], chunks=[c], endpoint=False)
    for shape, chunks in FIXED_GEOMS:
        for fn in ("zeros", "ones", "empty"):
            yield [], dict(fn=fn, shape=list(shape), chunks=list(chunks))
        yield [], dict(fn="full", shape=list(shape), chunks=list(chunks), fill=7.5)
    for (r, c) in ((1, 1), (3, 3), (3, 5), (5, 2)):
        for ch in itertools.product(chunkings_1d(r), chunkings_1d(c)):
            for k in (-2, -1, 0, 1, 3):
                yield [], dict(fn="eye", args=[r, c], k=k, chunks=list(ch))


def _creation_build(xs, p, spec=None):
    m = xp()
    fn = p["fn"]
    ch = _t(p["chunks"])
    if fn == "arange":
        return m.arange(*p["args"], chunks=ch, spec=spec)
    if fn == "linspace":
        return m.linspace(p["args"][0], p["args"][1], p["args"][2], endpoint=p.get("endpoint", True), chunks=ch, spec=spec)
    if fn in ("zeros", "ones", "empty"):
        return getattr(m, fn)(_t(p["shape"]), chunks=ch, spec=spec)
    if fn == "full":
        return m.full(_t(p["shape"]), p["fill"], chunks=ch, spec=spec)
    if fn == "eye":
        return m.eye(*p["args"], k=p["k"], chunks=ch, spec=spec)
    raise KeyError(fn)


def _creation_ref(ns, p):
    fn = p["fn"]
    if fn == "arange":
        return np.arange(*p["args"])
    if fn == "linspace":
        return np.linspace(p["args"][0], p["args"][1], p["args"][2], endpoint=p.get("endpoint", True))
    if fn in ("zeros", "ones"):
        return getattr(np, fn)(_t(p["shape"]))
    if fn == "empty":
        return np.empty(_t(p["shape"]))
    if fn == "full":
        return np.full(_t(p["shape"]), p["fill"])
    if fn == "eye":
        return np.eye(*p["args"], k=p["k"])
    raise KeyError(fn)


def _judge_creation(ns, outs, p):
    if p["fn"] == "empty":
        return None if outs[0].shape == tuple(p["shape"]) else "shape"
    return "default"


OPS["creation"] = Op("creation", gen_creation, _creation_build, _creation_ref, close=True, group="creation")
OPS["creation"].needs_spec = True
OPS["creation"].judge = lambda ns, outs, p: (None if outs[0].shape == tuple(p["shape"]) else "shape") if p["fn"] == "empty" else "default"


def gen_like(tier):
    for shape, chunks in FIXED_GEOMS[2:9]:
        for fn in ("zeros_like", "ones_like", "full_like", "empty_like"):
            yield [inp(shape, chunks)], dict(fn=fn)


def _like_build(xs, p):
    m = xp()
    if p["fn"] == "full_like":
        return m.full_like(xs[0], 3.5)
    return getattr(m, p["fn"])(xs[0])


def _like_ref(ns, p):
    if p["fn"] == "full_like":
        return np.full_like(ns[0], 3.5)
    return getattr(np, p["fn"])(ns[0])


reg("like", gen_like, _like_build, _like_ref, group="creation",
    judge=lambda ns, outs, p: (None if outs[0].shape == ns[0].shape else "shape") if p["fn"] == "empty_like" else "default")


def gen_tri(tier):
    for shape, chunks in geoms(2, D(tier, small=True)) + geoms(3, (2, 3))[:20]:
        for k in (-2, -1, 0, 1, 3):
            for fn in ("tril", "triu"):
                yield [inp(shape, chunks)], dict(fn=fn, k=k)


reg("tri", gen_tri, lambda xs, p: getattr(xp(), p["fn"])(xs[0], k=p["k"]), lambda ns, p: getattr(np, p["fn"])(ns[0], k=p["k"]), group="creation")
reg("astype", lambda tier: (([inp(s, c, d1)], dict(dtype=d2)) for s, c in FIXED_GEOMS[2:8] for d1 in ("float64", "int32", "bool", "uint8") for d2 in ("float32", "int64", "bool", "complex128", "uint16")),
    lambda xs, p: xp().astype(xs[0], np.dtype(p["dtype"])), lambda ns, p: ns[0].astype(p["dtype"]), group="creation")


# asarray with an explicit dtype over every kind of source (cubed array, NumPy array, nested list, scalar)
ASARRAY_VALUES = {"float64": [1.5, -2.5, 3.25, 0.0, 7.75, -0.5], "int32": [3, -2, 0, 7, 100, -9], "bool": [True, False, True, True, False, False]}


def gen_asarray_dtype(tier):
    for src in ("array", "numpy", "list", "scalar"):
        for d1 in ("float64", "int32", "bool"):
            for d2 in (None, "float64", "float32", "int32", "int64", "bool"):
                for shape, chunks in (((6,), (4,)), ((2, 3), (1, 2))):
                    if src == "scalar" and shape != (6,):
                        continue
                    yield [], dict(src=src, d1=d1, dtype=d2, shape=list(shape), chunks=list(chunks), fn=src)


def _asarray_np(p):
    v = np.asarray(ASARRAY_VALUES[p["d1"]], dtype=p["d1"]).reshape(_t(p["shape"]))
    return v[(0,) * (v.ndim - 1) + (0,)] if p["src"] == "scalar" else v


def _asarray_build(xs, p, spec=None):
    m = xp()
    v = _asarray_np(p)
    kw = {} if p["dtype"] is None else dict(dtype=np.dtype(p["dtype"]))
    if p["src"] == "array":
        return m.asarray(m.asarray(v, chunks=_t(p["chunks"]), spec=spec), **kw)
    if p["src"] == "numpy":
        return m.asarray(v, chunks=_t(p["chunks"]), spec=spec, **kw)
    if p["src"] == "list":
        return m.asarray(v.tolist(), chunks=_t(p["chunks"]), spec=spec, **kw)
    return m.asarray(v.item(), spec=spec, **kw)


def _asarray_ref(ns, p):
    v = _asarray_np(p)
    return np.asarray(v if p["dtype"] is None else v.astype(p["dtype"]))


reg("asarray_dtype", gen_asarray_dtype, _asarray_build, _asarray_ref, group="creation")
OPS["asarray_dtype"].needs_spec = True


# ----------------------------------------------------------------- top level
def gen_rechunk(tier):
    dims = D(tier)
    for shape, c1 in geoms(1, dims + ((8,) if tier == "quick" else (8, 11))) + geoms(2, SD if tier == "quick" else QD):
        for c2 in itertools.product(*[chunkings_1d(n) for n in shape]):
            yield [inp(shape, c1)], dict(chunks=list(c2))


reg("rechunk", gen_rechunk, lambda xs, p: xs[0].rechunk(_t(p["chunks"]), allow_irregular=p.get("allow_irregular", True), **({"min_mem": p["min_mem"]} if "min_mem" in p else {})), lambda ns, p: ns[0], group="top")


def _mb_func(a, block_id=None):
    return a * 10 + sum((i + 1) * (10 ** -(k + 1)) for k, i in enumerate(block_id)) if block_id is not None else a * 10


def gen_map_blocks(tier):
    for shape, chunks in geoms(1, D(tier)) + geoms(2, SD if tier == "quick" else QD):
        yield [inp(shape, chunks)], dict(mode="block_id")
        yield [inp(shape, chunks)], dict(mode="plain")
        if len(shape) == 2:
            yield [inp(shape, chunks)], dict(mode="drop_axis")
            # the dropped axis given as 0 / negative / a list; with several blocks along it (single=False) the request must be refused
            for drop in (0, -1, -2, [1], [-1]):
                yield [inp(shape, chunks)], dict(mode="drop_axis", drop=drop)
            for drop in (1, -1, 0):
                yield [inp(shape, chunks)], dict(mode="drop_axis", drop=drop, single=False)
            yield [inp(shape, chunks)], dict(mode="new_axis", new=2)
            yield [inp(shape, chunks)], dict(mode="new_axis", new=1)
        yield [inp(shape, chunks)], dict(mode="new_axis")
        yield [inp(shape, chunks), inp(shape, chunks)], dict(mode="two")
        if shape in ((5,), (3, 5)):
            # a NumPy array as one of the arguments (coerced inside map_blocks), in either position
            yield [inp(shape, chunks)], dict(mode="numpy-first")
            yield [inp(shape, chunks)], dict(mode="numpy-second")


def _bid_ref(a, chunks):
    out = a * 10.0
    it = [range(0, max(n, 0), c) for n, c in zip(a.shape, chunks)]
    for offs in itertools.product(*it):
        bid = tuple(o // c for o, c in zip(offs, chunks))
        sl = tuple(slice(o, o + c) for o, c in zip(offs, chunks))
        out[sl] = a[sl] * 10 + sum((i + 1) * (10 ** -(k + 1)) for k, i in enumerate(bid))
    return out


def _mb_build(xs, p):
    c = cb()
    x = xs[0]
    mode = p["mode"]
    if mode == "block_id":
        return c.map_blocks(_mb_func, x, dtype=x.dtype)
    if mode == "plain":
        return c.map_blocks(lambda a: a * 10, x, dtype=x.dtype)
    if mode == "drop_axis":
        # requires a single block along the dropped axis
        drop = p.get("drop", 1)
        ax = (drop[0] if isinstance(drop, list) else drop) % 2
        y = x
        if p.get("single", True) and x.numblocks[ax] > 1:
            y = x.rechunk(tuple((x.shape[k] or 1) if k == ax else x.chunksize[k] for k in range(2)))
        return c.map_blocks(lambda a: a.sum(axis=ax), y, dtype=x.dtype, drop_axis=drop)
    if mode == "new_axis":
        new = p.get("new", 0)
        return c.map_blocks(lambda a: np.expand_dims(a, new) * 2, x, dtype=x.dtype, new_axis=new)
    if mode == "two":
        return c.map_blocks(lambda a, b: a - 2 * b, x, xs[1], dtype=x.dtype)
    if mode in ("numpy-first", "numpy-second"):
        k = np.full((1,) * x.ndim, 3.0)  # a single broadcastable block
        if mode == "numpy-first":
            return c.map_blocks(lambda b, a: a - 2 * b, k, x, dtype=x.dtype, chunks=x.chunks)
        return c.map_blocks(lambda a, b: a - 2 * b, x, k, dtype=x.dtype, chunks=x.chunks)
    raise KeyError(mode)


def _mb_ref(ns, p):
    a = ns[0]
    mode = p["mode"]
    if mode == "block_id":
        return _bid_ref(a, p["_chunks"])
    if mode == "plain":
        return a * 10
    if mode == "drop_axis":
        drop = p.get("drop", 1)
        return a.sum(axis=(drop[0] if isinstance(drop, list) else drop) % 2)
    if mode == "new_axis":
        return np.expand_dims(a, p.get("new", 0)) * 2
    if mode == "two":
        return a - 2 * ns[1]
    if mode in ("numpy-first", "numpy-second"):
        return a - 6.0


reg("map_blocks", lambda tier: ((i, dict(p, _chunks=i[0]["chunks"])) for i, p in gen_map_blocks(tier)), _mb_build, _mb_ref, group="top")


def gen_map_overlap(tier):
    for shape, chunks in geoms(1, (3, 5, 7)) + geoms(2, (3, 5)):
        for depth in (1, 2):
            # documented-safe domain: depth no larger than the smallest chunk (incl. the last one)
            if any(min(c, n % c or c) < depth for n, c in zip(shape, chunks)):
                continue
            for boundary in (0, 9.0):
                yield [inp(shape, chunks)], dict(depth=depth, boundary=boundary)


def _mo_build(xs, p):
    x = xs[0]
    d = p["depth"]
    return cb().map_overlap(lambda a: a, x, dtype=x.dtype, chunks=tuple(tuple(c + 2 * d for c in cs) for cs in x.chunks), depth=d, boundary=p["boundary"], trim=False)


def _mo_ref(ns, p):
    # untrimmed identity: every block padded by depth with neighbours / boundary value
    a = ns[0]
    d = p["depth"]
    ch = p["_chunks"]
    padded = np.pad(a, d, constant_values=p["boundary"])
    pieces = None
    def blocks_along(arr, ax, n, c):
        out = []
        for o in range(0, n, c):
            e = min(o + c, n)
            sl = [slice(None)] * arr.ndim
            sl[ax] = slice(o, e + 2 * d)
            out.append(arr[tuple(sl)])
        return np.concatenate(out, axis=ax)
    r = padded
    # apply per axis; but later axes must operate on original-coordinates: do via index maps
    idx = []
    for n, c in zip(a.shape, ch):
        ii = []
        for o in range(0, n, c):
            e = min(o + c, n)
            ii.extend(range(o, e + 2 * d))
        idx.append(np.asarray(ii, dtype=np.int64))
    return padded[np.ix_(*idx)]


reg("map_overlap", lambda tier: ((i, dict(p, _chunks=i[0]["chunks"])) for i, p in gen_map_overlap(tier)), _mo_build, _mo_ref, group="top")


def gen_pad(tier):
    for shape, chunks in geoms(1, (1, 3, 5)) + geoms(2, (2, 3)):
        for pw in ([[1, 0]], [[0, 2]], [[1, 2]], [[0, 0]]):
            pwf = pw * len(shape) if len(shape) == 1 else [pw[0], [0, 0]]
            for mode in ("constant", "symmetric"):
                yield [inp(shape, chunks)], dict(pad_width=pwf, mode=mode)


reg("pad", gen_pad, lambda xs, p: cb().pad(xs[0], _t(p["pad_width"]), mode=p["mode"]), lambda ns, p: np.pad(ns[0], _t(p["pad_width"]), mode=p["mode"]), group="top")


def gen_gufunc(tier):
    for shape, chunks in geoms(2, (2, 3, 5)):
        if chunks[1] != max(shape[1], 1):
            # core dimension must be a single chunk unless allow_rechunk
            yield [inp(shape, chunks)], dict(kind="mean", allow_rechunk=True)
        else:
            yield [inp(shape, chunks)], dict(kind="mean", allow_rechunk=False)
    for shape, chunks in geoms(1, (3, 5)):
        yield [inp(shape, chunks), inp(shape, tuple(max(1, n) for n in shape))], dict(kind="add")


def _guf_build(xs, p):
    c = cb()
    if p["kind"] == "mean":
        return c.apply_gufunc(lambda a: np.mean(a, axis=-1), "(i)->()", xs[0], output_dtypes=np.float64, allow_rechunk=p["allow_rechunk"])
    return c.apply_gufunc(lambda a, b: a + 2 * b, "(),()->()", xs[0], xs[1], output_dtypes=np.float64)


reg("apply_gufunc", gen_gufunc, _guf_build, lambda ns, p: ns[0].mean(axis=-1) if p["kind"] == "mean" else ns[0] + 2 * ns[1], close=True, group="top")


def gen_from_array(tier):
    for shape, chunks in FIXED_GEOMS + geoms(2, SD):
        yield [inp(shape, chunks)], dict(src="from_array")
        yield [inp(shape, chunks)], dict(src="from_zarr")


reg("sources", gen_from_array, None, lambda ns, p: ns[0], group="top")
OPS["sources"].special = True


def gen_random(tier):
    for shape, chunks in geoms(1, (3, 5)) + geoms(2, (3, 5)):
        yield [], dict(shape=list(shape), chunks=list(chunks), fn="random")
        yield [], dict(shape=list(shape), chunks=list(chunks), fn="integers")


# random has no NumPy oracle: judged by range/shape (determinism is C06's)
def _judge_random(ns, outs, p):
    r = outs[0]
    if r.shape != tuple(p["shape"]):
        return f"shape {r.shape}"
    if p["fn"] == "random":
        if r.size and not ((r >= 0).all() and (r < 1).all()):
            return "values outside [0,1)"
        if r.size > 1 and len(np.unique(r)) != r.size:
            return "repeated values across blocks"
    return None


def _random_build(xs, p, spec=None):
    import cubed.random as cr

    if p["fn"] == "random":
        return cr.random(_t(p["shape"]), chunks=_t(p["chunks"]), spec=spec)
    return cr.integers(_t(p["shape"]), chunks=_t(p["chunks"]), spec=spec)


OPS["random"] = Op("random", gen_random, _random_build, lambda ns, p: np.zeros(_t(p["shape"])), judge=_judge_random, group="top", nondet=True)
OPS["random"].needs_spec = True


def _negative_twin(name, inputs, params):
    """the same request with its non-negative axis arguments written as negative ones (NumPy semantics), or None"""
    if not inputs:
        return None
    nd = len(inputs[0]["shape"])
    if nd == 0:
        return None

    def neg(v, n):
        if isinstance(v, bool) or v is None:
            return None
        if isinstance(v, int):
            return v - n if 0 <= v < n else None
        if isinstance(v, (list, tuple)) and v and all(isinstance(x, int) and not isinstance(x, bool) and 0 <= x < n for x in v):
            return [x - n for x in v]
        return None

    q = dict(params)
    changed = False
    if name == "tensordot" and isinstance(params.get("axes"), (list, tuple)) and len(params["axes"]) == 2 and len(inputs) == 2:
        a = neg(list(params["axes"][0]), nd) if isinstance(params["axes"][0], (list, tuple)) else None
        b = neg(list(params["axes"][1]), len(inputs[1]["shape"])) if isinstance(params["axes"][1], (list, tuple)) else None
        if a is not None and b is not None:
            q["axes"] = [a, b]
            changed = True
    else:
        for k in ("axis", "axes", "src", "dst"):
            if k in params and name not in ("stack", "expand_dims", "map_blocks", "asarray_dtype", "sources"):
                v = neg(params[k], nd)
                if v is not None:
                    q[k] = v
                    changed = True
    return q if changed else None


def cases(tier, ops=None):
    per = 3 if tier == "quick" else 12
    for name, op in OPS.items():
        if ops and name not in ops:
            continue
        twins = {}
        for inputs, params in op.gen(tier):
            yield dict(op=name, inputs=inputs, params=params)
            # aliased twins: the SAME array object in every argument position (first few multi-block cases per variant)
            if len(inputs) >= 2 and name != "searchsorted" and not getattr(op, "special", False) and all(
                    (i["shape"], i["dtype"], i.get("kind")) == (inputs[0]["shape"], inputs[0]["dtype"], inputs[0].get("kind")) for i in inputs) \
                    and any(n > c for n, c in zip(inputs[0]["shape"], inputs[0]["chunks"])):
                key = json.dumps(["alias", params.get("fn"), params.get("axis"), params.get("mode")], default=str)
                if twins.get(key, 0) < per:
                    twins[key] = twins.get(key, 0) + 1
                    yield dict(op=name, inputs=inputs, params=dict(params, alias=True))
            # negative-axis twins: the first few multi-block cases of every (operation, variant, axis value)
            if any(n > c for i in inputs for n, c in zip(i["shape"], i["chunks"])):
                q = _negative_twin(name, inputs, params)
                if q is not None:
                    key = json.dumps([params.get("fn"), params.get("axis"), params.get("axes"), params.get("src"), params.get("dst"), params.get("keepdims")], default=str)
                    if twins.get(key, 0) < per:
                        twins[key] = twins.get(key, 0) + 1
                        yield dict(op=name, inputs=inputs, params=q)


CATALOGUED_NAMES = None


def uncatalogued():
    """Public callables that no catalogue entry exercises (reported in evidence, never a violation)."""
    import inspect

    import cubed
    import cubed.array_api as m

    covered = set(FLOAT_UNARY + INT_UNARY + BOOL_UNARY + COMPLEX_UNARY + FLOAT_BINARY + INT_BINARY + BOOL_BINARY)
    covered |= {"where", "clip", "sum", "mean", "max", "min", "prod", "var", "std", "all", "any", "count_nonzero", "argmax", "argmin",
                "cumulative_sum", "cumulative_prod", "diff", "concat", "stack", "expand_dims", "flip", "permute_dims", "moveaxis",
                "matrix_transpose", "repeat", "tile", "roll", "reshape", "squeeze", "unstack", "broadcast_to", "broadcast_arrays", "meshgrid",
                "take", "matmul", "tensordot", "vecdot", "searchsorted", "isin", "arange", "linspace", "zeros", "ones", "empty", "full", "eye",
                "zeros_like", "ones_like", "full_like", "empty_like", "tril", "triu", "astype", "asarray",
                "nansum", "nanmean", "nanmax", "nanmin", "nanprod", "nanvar", "nanstd", "nanargmax", "nanargmin", "nanmedian", "nancumsum", "nancumprod",
                "rechunk", "map_blocks", "map_overlap", "pad", "apply_gufunc", "from_array", "from_zarr", "random", "compute", "store", "to_zarr",
                "plan", "visualize"}
    notops = {"Array", "Callback", "Spec", "TaskEndEvent", "config", "measure_reserved_mem", "raise_if_computes", "can_cast", "finfo", "iinfo",
              "isdtype", "result_type", "broadcast_shapes", "__array_namespace_info__", "linalg"}
    out = []
    for mod in (m, cubed):
        for n in getattr(mod, "__all__", []):
            o = getattr(mod, n, None)
            if callable(o) and not inspect.isclass(o) and n not in covered and n not in notops:
                out.append(f"{mod.__name__}.{n}")
    return sorted(set(out))
