"""Small-scope enumerators: shapes, all regular chunkings, deterministic data."""
from __future__ import annotations

import itertools

import numpy as np


def chunkings_1d(n):
    return list(range(1, max(n, 1) + 1))


def geoms(ndim, dims):
    """All (shape, chunks) with each dim in `dims`, every regular chunking."""
    out = []
    for shape in itertools.product(dims, repeat=ndim):
        for chunks in itertools.product(*[chunkings_1d(n) for n in shape]):
            out.append((tuple(shape), tuple(chunks)))
    return out


def geoms_upto(max_ndim, dims, min_ndim=1):
    out = []
    for d in range(min_ndim, max_ndim + 1):
        out.extend(geoms(d, dims))
    return out


def nblocks(shape, chunks):
    return tuple(max(1, -(-n // c)) for n, c in zip(shape, chunks))


def multi_block(shape, chunks, axes=None):
    nb = nblocks(shape, chunks)
    if axes is None:
        return any(b >= 2 for b in nb)
    return any(nb[a] >= 2 for a in axes)


# fixed geometry set used for the "every function" sweeps (incl. uneven last chunk,
# single-element chunks, size-0 / size-1 dims, 0-d)
FIXED_GEOMS = [
    ((), ()),
    ((0,), (1,)),
    ((1,), (1,)),
    ((5,), (2,)),
    ((5,), (1,)),
    ((7,), (3,)),
    ((3, 4), (2, 2)),
    ((5, 3), (2, 3)),
    ((1, 5), (1, 2)),
    ((4, 0), (2, 1)),
    ((2, 3, 4), (1, 2, 3)),
    ((2, 2, 2, 3), (1, 2, 1, 2)),
]


def mkdata(shape, dtype, idx=0, seed=0, kind="distinct"):
    """Pairwise-distinct small integer-valued data (exact in float64); a mis-routed
    block changes the answer.  `seed` permutes the values, never selects."""
    dtype = np.dtype(dtype)
    n = int(np.prod(shape)) if len(shape) else 1
    base = np.arange(1, n + 1, dtype=np.int64)
    if seed:
        rng = np.random.RandomState(seed * 7919 + idx)
        base = rng.permutation(base)
    if dtype == np.bool_:
        arr = ((base * 7 + idx) % 3 == 0)
    elif dtype.kind in "iu":
        off = 3 * idx
        arr = base + off
        if dtype.itemsize == 1:
            arr = arr % 100
        if dtype.kind == "i":
            arr = np.where(base % 4 == 0, -arr, arr)
        arr = arr.astype(dtype)
    elif dtype.kind == "c":
        arr = (base + 10 * idx).astype(np.float64) + 1j * (base[::-1] if n else base).astype(np.float64)
        arr = arr.astype(dtype)
    else:
        arr = (base + 100 * idx).astype(np.float64)
        arr = np.where(base % 3 == 0, -arr, arr)
        if kind == "frac":
            arr = arr / 8.0
        if kind == "nan" and n:
            arr = arr.copy()
            arr[(base % 4 == 1)] = np.nan
        if kind == "unit":
            arr = (base % 19) / 20.0
        if kind == "pos":
            arr = np.abs(arr)
        arr = arr.astype(dtype)
    return arr.reshape(shape)


def broadcast_pairs(dims=(1, 2, 3)):
    """pairs of shapes (ndim<=2) that broadcast together"""
    shapes = [()] + [(a,) for a in dims] + [(a, b) for a in dims for b in dims]
    out = []
    for s1 in shapes:
        for s2 in shapes:
            try:
                np.broadcast_shapes(s1, s2)
            except ValueError:
                continue
            out.append((s1, s2))
    return out
