"""ControlledExecutor: a DagExecutor that runs the real task bodies
(pipeline.function(m, config=pipeline.config)) sequentially under a schedule
the harness owns (order, duplicates, crash point, pickled placement), records
per-task store traces (through World.cur) and block writes, and delivers the
same callback events as the real executors."""
from __future__ import annotations

import contextlib

from cubed.runtime.pipeline import visit_nodes
from cubed.runtime.types import DagExecutor, TaskEndEvent
from cubed.runtime.utils import handle_operation_end_callbacks, handle_operation_start_callbacks


class Crash(Exception):
    """Injected interruption of a computation."""


class OpRec:
    def __init__(self, name, advertised, mappable_len, node):
        self.name = name
        self.advertised = advertised
        self.mappable_len = mappable_len
        self.node = node
        self.executed = 0


class WriteRec:
    __slots__ = ("task", "path", "region", "vshape", "store")

    def __init__(self, task, path, region, vshape, store):
        self.task, self.path, self.region, self.vshape, self.store = task, path, region, vshape, store


_WRITES = None  # active write monitor list


@contextlib.contextmanager
def write_monitor(world):
    """Record (task, array path, region shape, value shape) for every zarr.Array.__setitem__."""
    import numpy as np
    import zarr

    global _WRITES
    recs = []
    orig = zarr.Array.__setitem__

    def patched(self, sel, value):
        try:
            s = sel if isinstance(sel, tuple) else (sel,)
            if all(isinstance(k, slice) for k in s) and len(s) == len(self.shape):
                reg = tuple(len(range(*k.indices(n))) for k, n in zip(s, self.shape))
            elif s == (Ellipsis,) or s == ():
                reg = tuple(self.shape)
            else:
                reg = None
            recs.append(WriteRec(world.cur if world is not None else None, self.path, reg, tuple(np.shape(value)),
                                 getattr(self.store, "label", None)))
        except Exception as e:  # never let the monitor change behaviour
            recs.append(WriteRec(None, "MONITOR-ERROR", None, repr(e), None))
        return orig(self, sel, value)

    zarr.Array.__setitem__ = patched
    try:
        yield recs
    finally:
        zarr.Array.__setitem__ = orig


class ControlledExecutor(DagExecutor):
    """schedule(default) -> list of (op_name, task_index) steps; default is the list of all
    tasks in topological op order.  `crash_after` = number of task executions after which
    Crash is raised; `on_task(name, idx, phase)` hook is called around each task."""

    def __init__(self, world=None, schedule=None, crash_after=None, placement="inproc", on_task=None,
                 task_wrapper=None, **kwargs):
        super().__init__(**kwargs)
        self.world = world
        self.schedule = schedule
        self.crash_after = crash_after
        self.placement = placement
        self.on_task = on_task
        self.task_wrapper = task_wrapper
        self.entered = False
        self.ops: list[OpRec] = []
        self.steps = []
        self.events = []

    @property
    def name(self):
        return "controlled"

    def execute_dag(self, dag, callbacks=None, spec=None, compute_id=None, **kwargs):
        self.entered = True
        self.dag = dag
        nodes = list(visit_nodes(dag))
        tasks = {}
        default = []
        for name, node in nodes:
            pipeline = node["pipeline"]
            ms = list(pipeline.mappable)
            tasks[name] = (pipeline, ms)
            self.ops.append(OpRec(name, node["primitive_op"].num_tasks, len(ms), node))
            default += [(name, i) for i in range(len(ms))]
        steps = self.schedule(default) if self.schedule else default
        oprec = {o.name: o for o in self.ops}
        started = set()
        remaining = {}
        for name, i in steps:
            remaining[name] = remaining.get(name, 0) + 1
        # ops with zero tasks still get start/end events, in order
        done_exec = 0
        order_names = [n for n, _ in nodes]

        def start(name):
            if name not in started:
                started.add(name)
                handle_operation_start_callbacks(callbacks, name)

        def maybe_end(name):
            if remaining.get(name, 0) == 0 and name in started and name not in ended:
                ended.add(name)
                handle_operation_end_callbacks(callbacks, name)

        ended = set()
        for name in order_names:
            if remaining.get(name, 0) == 0:
                # op without scheduled tasks (zero-task op)
                pass
        for name, i in steps:
            if self.crash_after is not None and done_exec >= self.crash_after:
                raise Crash(f"crash after {done_exec} task executions")
            # zero-task ops that precede this op in topological order
            for n2 in order_names:
                if n2 == name:
                    break
                if remaining.get(n2, 0) == 0 and n2 not in started:
                    start(n2)
                    maybe_end(n2)
            start(name)
            pipeline, ms = tasks[name]
            self._run_task(name, i, pipeline, ms[i])
            oprec[name].executed += 1
            done_exec += 1
            self.steps.append((name, i))
            if callbacks is not None:
                ev = TaskEndEvent(name=name, result=None)
                for cbk in callbacks:
                    cbk.on_task_end(ev)
            remaining[name] -= 1
            maybe_end(name)
        if self.crash_after is not None and done_exec >= self.crash_after and done_exec < len(steps):
            raise Crash(f"crash after {done_exec} task executions")
        for n2 in order_names:
            if n2 not in started:
                start(n2)
            maybe_end(n2)

    def _run_task(self, name, i, pipeline, m):
        w = self.world
        fn, cfg = pipeline.function, pipeline.config
        if self.placement == "pickle":
            import cloudpickle

            fn, m, cfg = cloudpickle.loads(cloudpickle.dumps((fn, m, cfg)))
        if w is not None:
            w.cur = (name, i)
        try:
            if self.on_task:
                self.on_task(name, i, "before")
            if self.task_wrapper:
                self.task_wrapper(name, i, lambda: fn(m, config=cfg))
            else:
                fn(m, config=cfg)
        finally:
            if w is not None:
                w.cur = None
            if self.on_task:
                self.on_task(name, i, "after")
