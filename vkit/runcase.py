"""Run one catalogue case on the real cubed code and record everything the
small-scope checks judge: phase/type of any exception, values vs NumPy,
declared vs actual metadata, per-write block shapes, store trace."""
from __future__ import annotations

import numpy as np

from .catalog import OPS, _t
from .cexec import ControlledExecutor, write_monitor
from .scope import mkdata, nblocks
from .tstore import World, is_chunk_key, array_of_key

ALLOWED_MEM = 4_000_000


def np_inputs(case, seed=0):
    op = OPS[case["op"]]
    ns = [mkdata(tuple(i["shape"]), i["dtype"], k, seed, i.get("kind", "distinct")) for k, i in enumerate(case["inputs"])]
    if case["op"] == "searchsorted":
        ns = [np.sort(ns[0]), (ns[1] % 7).astype(ns[1].dtype)]
    if case["params"].get("alias"):
        # one array in every argument position (the catalogue only sets this when all inputs have the same geometry and dtype)
        ns = [ns[0]] * len(ns)
    return ns


def make_spec(world, **kw):
    import cubed

    kw.setdefault("allowed_mem", ALLOWED_MEM)
    kw.setdefault("reserved_mem", 0)
    return cubed.Spec(intermediate_store=world.store("inter"), **kw)


def cubed_inputs(case, ns, spec, world):
    import cubed
    import cubed.array_api as xp
    import zarr

    xs = []
    for k, (i, a) in enumerate(zip(case["inputs"], ns)):
        chunks = tuple(i["chunks"])
        src = case["params"].get("src")
        if src == "from_zarr":
            st = world.store(f"src{k}")
            za = zarr.create_array(st, shape=a.shape, dtype=a.dtype, chunks=chunks if a.ndim else ())
            za[...] = a
            xs.append(cubed.from_zarr(st, spec=spec))
        elif src == "from_array":
            xs.append(cubed.from_array(a, chunks=chunks, spec=spec))
        else:
            xs.append(xp.asarray(a, chunks=chunks, spec=spec))
        if case["params"].get("alias"):
            return [xs[0]] * len(ns)
    return xs


def reference(case, ns):
    op = OPS[case["op"]]
    with np.errstate(all="ignore"):
        return op.ref(ns, case["params"])


def as_tuple(x):
    if isinstance(x, (tuple, list)):
        return tuple(x)
    return (x,)


def compare(op, ns, exp, got, params):
    """None if equal, else text."""
    if op.judge is not None:
        r = op.judge(ns, got, params)
        if r != "default":
            return r
    exp = as_tuple(exp)
    if len(exp) != len(got):
        return f"{len(got)} outputs, expected {len(exp)}"
    for k, (e, g) in enumerate(zip(exp, got)):
        e = np.asarray(e)
        g = np.asarray(g)
        if e.shape != g.shape:
            return f"output {k}: shape {g.shape}, NumPy {e.shape}"
        if op.close:
            single = e.dtype in (np.float32, np.complex64) or g.dtype in (np.float32, np.complex64)
            ok = np.allclose(g, e, rtol=1e-5 if single else 1e-9, atol=1e-6 if single else 1e-12, equal_nan=True)
        else:
            try:
                ok = np.array_equal(g, e, equal_nan=True)
            except TypeError:
                ok = np.array_equal(g, e)
        if not ok:
            with np.errstate(all="ignore"):
                bad = np.argwhere(~np.isclose(g.astype(complex), e.astype(complex), equal_nan=True)) if e.size else []
            first = tuple(bad[0]) if len(bad) else None
            return (f"output {k}: {len(bad)} of {e.size} elements differ; first at {first}: "
                    f"cubed={g[first] if first is not None else None!r} numpy={e[first] if first is not None else None!r}")
    return None


class Obs(dict):
    __getattr__ = dict.get


def run_case(case, seed=0, optimize=True, executor="controlled", monitor=False, spec_kw=None, keep_world=False,
             compute_kw=None):
    """Returns Obs(ref_ok, phase, exc_type, exc_msg, mismatch, declared, results, write_mismatch, ops, nontrivial, world)."""
    import cubed

    op = OPS[case["op"]]
    params = case["params"]
    obs = Obs(case=case, ref_ok=True, phase="OK", exc_type=None, exc_msg=None, mismatch=None, nontrivial=False)
    ns = np_inputs(case, seed)
    try:
        exp = reference(case, ns)
    except Exception as e:
        obs.update(ref_ok=False, ref_exc=f"{type(e).__name__}: {e}")
        exp = None
    obs["nontrivial"] = any(any(b >= 2 for b in nblocks(i["shape"], i["chunks"])) for i in case["inputs"]) or (
        not case["inputs"] and any(b >= 2 for b in nblocks(params.get("shape", [params.get("args", [1])[0]] if params.get("args") else []), params.get("chunks", [])) ) if True else False)
    world = World()
    tmpd = None
    try:
        if executor == "processes":
            # worker processes cannot see an in-memory store of this process: intermediate data goes to a scratch directory
            import tempfile
            tmpd = tempfile.mkdtemp(prefix="vkit-proc-")
            kw = dict(spec_kw or {})
            kw.setdefault("allowed_mem", ALLOWED_MEM)
            kw.setdefault("reserved_mem", 0)
            spec = cubed.Spec(work_dir=tmpd, **kw)
        else:
            spec = make_spec(world, **(spec_kw or {}))
        # BUILD
        try:
            xs = cubed_inputs(case, ns, spec, world)
            if getattr(op, "special", False):
                outs = (xs[0],)
            elif getattr(op, "needs_spec", False):
                outs = as_tuple(op.build(xs, params, spec=spec))
            else:
                outs = as_tuple(op.build(xs, params))
        except Exception as e:
            obs.update(phase="BUILD", exc_type=type(e).__name__, exc_msg=str(e)[:300], exc_mro=[c.__name__ for c in type(e).__mro__])
            return obs
        obs["declared"] = [(tuple(o.shape), str(o.dtype), tuple(tuple(c) for c in o.chunks)) for o in outs]
        pristine = [np.array(a, copy=True) for a in ns]
        src_before = {label: {k: bytes(v.to_bytes()) for k, v in st._store_dict.items()} for label, st in world.stores.items() if label.startswith("src")}
        # PLAN + EXEC
        if executor == "controlled":
            ex = ControlledExecutor(world=world)
        else:
            from cubed.runtime.create import create_executor
            ex = create_executor(executor)
        import contextlib
        cm = write_monitor(world) if monitor else contextlib.nullcontext([])
        mark = world.mark()
        try:
            with cm as writes:
                got = cubed.compute(*outs, executor=ex, optimize_graph=optimize, **(compute_kw or {}))
        except Exception as e:
            entered = getattr(ex, "entered", None)
            if entered is None:
                entered = any(ev.op == "set" for ev in world.events(mark))
            obs.update(phase="EXEC" if entered else "PLAN", exc_type=type(e).__name__, exc_msg=str(e)[:300],
                       exc_mro=[c.__name__ for c in type(e).__mro__])
            return obs
        got = as_tuple(got)
        obs["results"] = [(tuple(np.shape(g)), str(np.asarray(g).dtype)) for g in got]
        obs["input_modified"] = [k for k, (a, b) in enumerate(zip(ns, pristine)) if not np.array_equal(a, b, equal_nan=True)]
        obs["source_store_modified"] = [label for label, before in src_before.items()
                                        if {k: bytes(v.to_bytes()) for k, v in world.stores[label]._store_dict.items()} != before]
        if monitor:
            obs["write_mismatch"] = [(str(w.task), w.path, w.region, w.vshape) for w in writes
                                     if w.region is not None and tuple(w.region) != tuple(w.vshape)]
            obs["nwrites"] = len(writes)
            obs["ops"] = [(o.name, o.advertised, o.mappable_len, o.executed) for o in getattr(ex, "ops", [])]
        if obs["ref_ok"]:
            obs["mismatch"] = compare(op, ns, exp, got, params)
        if keep_world:
            obs["world"] = world
            obs["outs"] = outs
            obs["got"] = got
            obs["spec"] = spec
            obs["dag"] = getattr(ex, "dag", None)
        return obs
    finally:
        if tmpd is not None:
            import shutil
            shutil.rmtree(tmpd, ignore_errors=True)
        if not keep_world:
            world.dispose()
