"""Harness-side speed-up: run zarr's sync() bridge on a private event loop in
the calling (main) thread instead of hopping to zarr's IO thread.  Semantics
of every store call are unchanged; calls from other threads (real threads
executor) fall back to zarr's own implementation.  Disabled with
VERIF_FASTSYNC=0."""
from __future__ import annotations

import asyncio
import os
import sys
import threading
from asyncio import events

_installed = False


def install():
    global _installed
    if _installed or os.environ.get("VERIF_FASTSYNC", "1") == "0":
        return
    import zarr  # noqa
    import zarr.core.sync as zs

    orig = zs.sync
    main = threading.main_thread()
    loop = asyncio.new_event_loop()
    state = {"busy": False}

    def fast_sync(coro, loop_=None, timeout=None):
        if threading.current_thread() is not main or state["busy"] or loop_ is not None:
            return orig(coro, loop_, timeout)
        prev = events._get_running_loop()
        events._set_running_loop(None)
        state["busy"] = True
        try:
            return loop.run_until_complete(coro)
        finally:
            state["busy"] = False
            events._set_running_loop(prev)

    for m in list(sys.modules.values()):
        try:
            if m is not None and getattr(m, "sync", None) is orig:
                m.sync = fast_sync
        except Exception:
            pass
    _installed = True
