"""CLI: ./check <ID> --tier quick|thorough [--replay FILE]"""
from __future__ import annotations

import argparse
import importlib
import io
import json
import os
import sys
import traceback
import warnings

from .common import Ctx, HarnessError


def load(pid):
    return importlib.import_module(f"vkit.checks.{pid.lower()}")


def replay_file(path):
    with open(path) as f:
        rec = json.load(f)
    mod = importlib.import_module(rec["module"])
    probs = mod.replay_case(rec["case"])
    return [p.to_json() for p in probs]


def main(argv=None):
    ap = argparse.ArgumentParser()
    ap.add_argument("pid")
    ap.add_argument("--tier", default=os.environ.get("VERIF_TIER", "quick"), choices=["quick", "thorough"])
    ap.add_argument("--replay")
    ap.add_argument("--seed", type=int, default=int(os.environ.get("VERIF_SEED", "0") or 0))
    a = ap.parse_args(argv)
    warnings.simplefilter("ignore")
    os.environ.setdefault("PYTHONHASHSEED", "0")
    pid = a.pid.upper()
    try:
        if a.replay:
            probs = replay_file(a.replay)
            with open(a.replay) as f:
                rec = json.load(f)
            print("recorded:", json.dumps({"sig": rec["sig"], "detail": rec["detail"]})[:2000])
            if probs:
                for p in probs:
                    print("replayed:", json.dumps(p)[:2000])
                print(f"VIOLATION property={pid} replay={a.replay}")
                return 1
            print("replayed: no problem on the current tree")
            return 0
        mod = load(pid)
        ctx = Ctx(pid, mod.LEVEL, a.tier, a.seed, mod.__name__)
        try:
            mod.run(ctx)
        finally:
            ctx.close()
        return ctx.finish()
    except HarnessError as e:
        print(f"HARNESS-ERROR property={pid}: {e}", file=sys.stderr)
        return 2
    except Exception:
        print(f"HARNESS-ERROR property={pid}: internal exception", file=sys.stderr)
        traceback.print_exc()
        return 2


if __name__ == "__main__":
    sys.exit(main())
