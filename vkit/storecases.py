"""store / to_zarr scenarios shared by C05 (writers) and C11 (values).

case = dict(op="store", source, shape, src_chunks, pairs=[dict(target, tchunks, tshape, region, shards)], lazy, call, api, executor)
Sources have known NumPy values; existing targets are pre-filled with a sentinel.
"""
from __future__ import annotations

import itertools

from .scope import chunkings_1d

SENTINEL = -999.0
SOURCES = ("mem", "lazy", "rechunked", "fused", "multi")


def _regions_1d(n, tn, tc):
    """regions for a 1-d source of length n into a target of length tn with chunk tc:
    yields (region or None, kind)"""
    out = [(None, "none")] if tn == n else []
    if tn == n:
        out.append(([[None, None]], "full"))
    for start in range(0, tn - n + 1):
        stop = start + n
        aligned = start % tc == 0 and (stop % tc == 0 or stop == tn)
        out.append(([[start, stop]], "aligned" if aligned else "misaligned"))
    # wrong extent
    if tn >= 2:
        out.append(([[0, max(1, n - 1)]], "wrong-extent"))
    return out


def store_cases(tier):
    sizes = (4, 6) if tier == "quick" else (3, 4, 6, 8)
    # ---- single pair, 1-d
    for n in sizes:
        for sc in chunkings_1d(n):
            for source in (SOURCES if sc == 2 or tier == "thorough" else ("mem", "lazy")):
                for lazy in (False, True):
                    # new path targets
                    for api in ("store", "to_zarr", "to_zarr_group"):
                        if api != "store" and (source not in ("mem", "lazy")):
                            continue
                        yield dict(op="store", source=source, shape=[n], src_chunks=[sc], lazy=lazy, api=api, call="single",
                                   pairs=[dict(target="new", region=None)])
                    # existing arrays of every chunking (same shape), no region
                    for tc in chunkings_1d(n):
                        yield dict(op="store", source=source, shape=[n], src_chunks=[sc], lazy=lazy, api="store", call="single",
                                   pairs=[dict(target="array", tshape=[n], tchunks=[tc], region=None)])
        # regions into a larger existing target
        for sc in chunkings_1d(n):
            for extra in (0, 2, 3):
                tn = n + extra
                for tc in (chunkings_1d(tn) if tier == "thorough" else [c for c in chunkings_1d(tn) if c in (1, 2, sc, tn)]):
                    for region, kind in _regions_1d(n, tn, tc):
                        if region is None:
                            continue
                        yield dict(op="store", source="lazy" if sc % 2 else "mem", shape=[n], src_chunks=[sc], lazy=False, api="store", call="single",
                                   pairs=[dict(target="array", tshape=[tn], tchunks=[tc], region=region, region_kind=kind)])
        # sharded targets
        for sc in chunkings_1d(n):
            for shard in (2, 4):
                if shard > n:
                    continue
                for inner in (1, 2):
                    if shard % inner:
                        continue
                    yield dict(op="store", source="mem", shape=[n], src_chunks=[sc], lazy=False, api="store", call="single",
                               pairs=[dict(target="sharded", tshape=[n], tchunks=[inner], shards=[shard], region=None)])
    # ---- 2-d
    shapes2 = [(4, 4)] if tier == "quick" else [(3, 4), (4, 4)]
    for shape in shapes2:
        for sc in itertools.product(*[chunkings_1d(k) for k in shape]):
            for tc in itertools.product(*[chunkings_1d(k) for k in shape]):
                if tier == "quick" and sc != tc and not (sc[0] == sc[1] and tc[0] == tc[1]):
                    continue
                yield dict(op="store", source="lazy", shape=list(shape), src_chunks=list(sc), lazy=False, api="store", call="single",
                           pairs=[dict(target="array", tshape=list(shape), tchunks=list(tc), region=None)])
            yield dict(op="store", source="fused", shape=list(shape), src_chunks=list(sc), lazy=True, api="store", call="single",
                       pairs=[dict(target="new", region=None)])
            # 2-d region at chunk-aligned offset in a (shape+chunk) target
            tshape = [shape[0] + sc[0], shape[1] + sc[1]]
            for off in ((0, 0), (sc[0], 0), (0, sc[1]), (sc[0], sc[1]), (1, 0)):
                region = [[off[0], off[0] + shape[0]], [off[1], off[1] + shape[1]]]
                kind = "aligned" if off[0] % sc[0] == 0 and off[1] % sc[1] == 0 else "misaligned"
                yield dict(op="store", source="mem", shape=list(shape), src_chunks=list(sc), lazy=False, api="store", call="single",
                           pairs=[dict(target="array", tshape=tshape, tchunks=list(sc), region=region, region_kind=kind)])
    # ---- call shapes with several pairs
    for n in (4, 6):
        for sc in (1, 2, n):
            for lazy in (False, True):
                for source in ("mem", "lazy"):
                    # two different sources -> two targets
                    yield dict(op="store", source=source, shape=[n], src_chunks=[sc], lazy=lazy, api="store", call="two-sources",
                               pairs=[dict(target="new", region=None), dict(target="array", tshape=[n], tchunks=[sc], region=None)])
                    # the same source twice -> two targets (same chunking)
                    yield dict(op="store", source=source, shape=[n], src_chunks=[sc], lazy=lazy, api="store", call="same-source-twice",
                               pairs=[dict(target="new", region=None), dict(target="new", region=None)])
                    # the same source to targets of different chunking
                    for tc in chunkings_1d(n):
                        if tc == sc:
                            continue
                        yield dict(op="store", source=source, shape=[n], src_chunks=[sc], lazy=lazy, api="store", call="same-source-twice",
                                   pairs=[dict(target="array", tshape=[n], tchunks=[sc], region=None), dict(target="array", tshape=[n], tchunks=[tc], region=None)])
                    # a later pair that cannot be written safely: the whole call must be refused before ANY target is touched
                    for bad, kind in (([[1, n + 1]], "misaligned"), ([[0, max(1, n - 1)]], "wrong-extent")):
                        if sc == 1 and kind == "misaligned":
                            continue  # every offset is aligned with chunks of one element
                        yield dict(op="store", source=source, shape=[n], src_chunks=[sc], lazy=lazy, api="store", call="two-sources",
                                   pairs=[dict(target="array", tshape=[n], tchunks=[sc], region=None),
                                          dict(target="array", tshape=[n + 4], tchunks=[max(sc, 2)], region=bad, region_kind=kind)])
                        yield dict(op="store", source=source, shape=[n], src_chunks=[sc], lazy=lazy, api="store", call="three",
                                   pairs=[dict(target="new", region=None), dict(target="array", tshape=[n], tchunks=[sc], region=None),
                                          dict(target="array", tshape=[n + 4], tchunks=[max(sc, 2)], region=bad, region_kind=kind)])
                    # three pairs
                    yield dict(op="store", source=source, shape=[n], src_chunks=[sc], lazy=lazy, api="store", call="three",
                               pairs=[dict(target="new", region=None), dict(target="array", tshape=[n], tchunks=[sc], region=None), dict(target="new", region=None)])
