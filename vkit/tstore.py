"""TStore: tracing / overlay / fault-injecting / snapshotting in-memory Zarr store.

A zarr.storage.MemoryStore subclass.  All stores of one experiment share a
`World` (the controller): current task, global event log, per-task write
overlays (extremal latency: a task's writes become visible only when the
harness completes the task), fault script.
"""
from __future__ import annotations

import re
import threading

from zarr.storage import MemoryStore
from zarr.core.sync import sync as zsync

_CHUNK_RE = re.compile(r"(^|/)c(/|$)")


def is_chunk_key(key: str) -> bool:
    return _CHUNK_RE.search(key) is not None and not key.endswith("zarr.json")


def array_of_key(key: str) -> str:
    """array path of a key: everything before '/c/...', '/c' or '/zarr.json'."""
    if key.endswith("zarr.json"):
        return key[: -len("zarr.json")].rstrip("/")
    m = re.search(r"(^|/)c(/|$)", key)
    return key[: m.start()] if m else key


class Ev:
    __slots__ = ("seq", "task", "op", "store", "key", "info")

    def __init__(self, seq, task, op, store, key, info):
        self.seq, self.task, self.op, self.store, self.key, self.info = seq, task, op, store, key, info

    def __repr__(self):
        return f"Ev({self.seq},{self.task},{self.op},{self.store},{self.key},{self.info})"

    def tup(self):
        return (self.seq, self.task, self.op, self.store, self.key, self.info)


class InjectedFault(OSError):
    pass


_WORLDS = {}


def _lookup_store(wid, label, read_only):
    """Unpickling a TStore inside the same process yields the *same* store (an
    in-memory store cannot travel; the closure/config round trip is what is tested)."""
    st = _WORLDS[wid].stores[label]
    return st.with_read_only(True) if read_only else st


class World:
    _next = 0

    def __init__(self):
        World._next += 1
        self.wid = World._next
        _WORLDS[self.wid] = self
        self.cur = None  # current task id (set by controlled executors)
        self.log: list[Ev] = []
        self.overlay_mode = False
        self.hash_sets = False
        self.overlays = {}  # task -> {store_label: {key: bytes-like}}
        self.stores = {}
        self.faults = []  # list of dict(store, op, key_re, outcomes(list[bool] ok?), count)
        self.lock = threading.Lock()
        self.mutations = []  # ordered (store,label,key,value|None) of visible mutations

    def store(self, label, read_only=False):
        s = TStore(self, label)
        self.stores[label] = s
        return s

    def record(self, op, store, key, info):
        with self.lock:
            self.log.append(Ev(len(self.log), self.cur, op, store, key, info))

    def add_fault(self, store, op, key_re, outcomes):
        self.faults.append(dict(store=store, op=op, key_re=re.compile(key_re), outcomes=list(outcomes), count=0))

    def fault_check(self, store, op, key):
        for f in self.faults:
            if f["store"] == store and f["op"] == op and f["key_re"].search(key):
                with self.lock:
                    k = f["count"]
                    f["count"] += 1
                ok = f["outcomes"][k] if k < len(f["outcomes"]) else True
                if not ok:
                    self.record("fault", store, key, k)
                    raise InjectedFault(f"injected {op} fault #{k} on {store}:{key}")

    # overlay handling -----------------------------------------------------
    def flush(self, task):
        """Make the writes of `task` visible (called when the harness completes it)."""
        ov = self.overlays.pop(task, {})
        for label, kv in ov.items():
            st = self.stores[label]
            for k, v in kv.items():
                if v is None:
                    st._store_dict.pop(k, None)
                else:
                    st._store_dict[k] = v
                self.mutations.append((label, k, v))
                self.record("visible", label, k, task)

    def snapshot(self):
        return {label: dict(s._store_dict) for label, s in self.stores.items()}

    def restore(self, snap):
        for label, s in self.stores.items():
            s._store_dict.clear()
            s._store_dict.update(snap.get(label, {}))

    def mark(self):
        return len(self.log)

    def dispose(self):
        _WORLDS.pop(self.wid, None)

    def events(self, since=0):
        return self.log[since:]


class TStore(MemoryStore):
    # force zarr onto the async get/set/delete surface that is traced here
    _supports_sync_io = False

    def __init__(self, world: World, label: str):
        super().__init__()
        self.world = world
        self.label = label

    # MemoryStore.__eq__ compares dict contents: two empty stores are equal.  Keep it.

    def with_read_only(self, read_only=False):
        # zarr may ask for a read-only view (open mode 'r'); share the dict and the world
        s = TStore.__new__(TStore)
        MemoryStore.__init__(s, store_dict=self._store_dict, read_only=read_only)
        s.world = self.world
        s.label = self.label
        return s

    def _ov(self):
        w = self.world
        if not w.overlay_mode or w.cur is None:
            return None
        return w.overlays.setdefault(w.cur, {}).setdefault(self.label, {})

    async def get(self, key, prototype=None, byte_range=None):
        w = self.world
        w.fault_check(self.label, "get", key)
        ov = self._ov()
        if ov is not None and key in ov:
            v = ov[key]
            w.record("get", self.label, key, "own" if v is not None else False)
            if v is None:
                return None
            if byte_range is None:
                return v
            from zarr.storage._utils import _normalize_byte_range_index
            start, stop = _normalize_byte_range_index(v, byte_range)
            return prototype.buffer.from_buffer(v[start:stop])
        r = await super().get(key, prototype, byte_range)
        w.record("get", self.label, key, r is not None)
        return r

    async def set(self, key, value, byte_range=None):
        w = self.world
        w.fault_check(self.label, "set", key)
        w.record("set", self.label, key, len(value))
        if w.hash_sets:
            w.record("sethash", self.label, key, hash(value.to_bytes()))
        ov = self._ov()
        if ov is not None:
            ov[key] = value
            return
        await super().set(key, value, byte_range)
        w.mutations.append((self.label, key, value))

    async def set_if_not_exists(self, key, value):
        w = self.world
        ov = self._ov()
        if ov is not None:
            if key in ov or key in self._store_dict:
                return
            w.record("set", self.label, key, len(value))
            ov[key] = value
            return
        if key not in self._store_dict:
            w.record("set", self.label, key, len(value))
            w.mutations.append((self.label, key, value))
        await super().set_if_not_exists(key, value)

    async def delete(self, key):
        w = self.world
        w.record("delete", self.label, key, key in self._store_dict)
        ov = self._ov()
        if ov is not None:
            ov[key] = None
            return
        await super().delete(key)
        w.mutations.append((self.label, key, None))

    async def exists(self, key):
        ov = self._ov()
        if ov is not None and key in ov:
            return ov[key] is not None
        r = await super().exists(key)
        self.world.record("exists", self.label, key, r)
        return r

    def __reduce__(self):
        return (_lookup_store, (self.world.wid, self.label, self.read_only))

    def __repr__(self):
        return f"TStore({self.label})"

    def __str__(self):
        return f"tstore://{self.label}"


def chunk_keys_of(store: MemoryStore, path: str):
    pre = (path + "/") if path else ""
    return sorted(k for k in store._store_dict if k.startswith(pre) and is_chunk_key(k[len(pre):] if pre else k))
