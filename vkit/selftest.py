"""Setup self-test: the seams the explorers rely on exist, MANIFEST validates."""
import json
import os
import subprocess
import sys

from .common import ROOT


def main():
    import cubed  # noqa: F401  (editable install of /repo)
    from .vloop import seam_selftest

    seam_selftest()
    assert os.path.realpath(os.path.dirname(cubed.__file__)).startswith("/repo"), cubed.__file__
    man = os.path.join(ROOT, "MANIFEST.json")
    schema = "/root/.vp/MANIFEST.schema.json"
    if os.path.exists(schema) and os.path.exists("/opt/veriftools/pyvenv/bin/python"):
        code = (
            "import json,jsonschema,sys;"
            f"jsonschema.validate(json.load(open({man!r})), json.load(open({schema!r})))"
        )
        subprocess.run(["/opt/veriftools/pyvenv/bin/python", "-c", code], check=True)
    else:
        json.load(open(man))
    print("selftest ok")


if __name__ == "__main__":
    sys.exit(main())
