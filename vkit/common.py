"""Runner plumbing shared by all checks: context, violations, known findings,
evidence, replay files, deterministic process pool.

Exit codes (see DESIGN.md 3.6): 0 held, 1 unlisted violation(s), 2 harness error.
"""
from __future__ import annotations

import hashlib
import json
import os
import sys
import time
import traceback
from concurrent.futures import ProcessPoolExecutor
import multiprocessing as mp

ROOT = os.path.dirname(os.path.dirname(os.path.abspath(__file__)))
# VERIF_OUT redirects evidence and replay files (used by tools/try_seeded.py --worktree so that
# evaluating a seeded change never overwrites the evidence of the unchanged tree)
_OUT = os.environ.get("VERIF_OUT") or ROOT
EVIDENCE_DIR = os.path.join(_OUT, "evidence")
REPLAY_DIR = os.path.join(_OUT, "replays")
KNOWN_FINDINGS = os.path.join(ROOT, "known_findings.json")

NCPU = min(16, os.cpu_count() or 1)


class HarnessError(Exception):
    """Lost seam, replay divergence or internal error: exit 2, never a VIOLATION."""


def jsonable(o):
    import numpy as np

    if isinstance(o, dict):
        return {str(k): jsonable(v) for k, v in o.items()}
    if isinstance(o, (list, tuple, set, frozenset)):
        return [jsonable(v) for v in o]
    if isinstance(o, (np.integer,)):
        return int(o)
    if isinstance(o, (np.floating,)):
        return float(o)
    if isinstance(o, np.ndarray):
        return o.tolist()
    if isinstance(o, (str, int, float, bool)) or o is None:
        return o
    return repr(o)


def stable_hash(o) -> str:
    return hashlib.sha1(
        json.dumps(jsonable(o), sort_keys=True).encode()
    ).hexdigest()[:12]


class Problem:
    """One violating case. `sig` is the root-cause signature (small dict of
    classifier fields) matched against known_findings.json; `case` is the input
    needed to replay it; `detail` says what was observed vs expected."""

    __slots__ = ("sig", "case", "detail")

    def __init__(self, sig, case, detail):
        self.sig = dict(sig)
        self.case = case
        self.detail = detail

    def to_json(self):
        return {"sig": jsonable(self.sig), "case": jsonable(self.case), "detail": str(self.detail)}


def load_known_findings():
    if not os.path.exists(KNOWN_FINDINGS):
        return []
    with open(KNOWN_FINDINGS) as f:
        data = json.load(f)
    return data.get("findings", [])


def match_finding(findings, pid, sig):
    for f in findings:
        if f.get("property") != pid:
            continue
        m = f.get("match", {})
        # a list in `match` means "any of these specific values" (unless the signature value is that very list)
        if all(jsonable(sig.get(k)) == v or (isinstance(v, list) and jsonable(sig.get(k)) in v) for k, v in m.items()):
            return f
    return None


class Ctx:
    def __init__(self, pid, level, tier, seed, module_name):
        self.pid = pid
        self.level = level
        self.tier = tier
        self.seed = seed
        self.module_name = module_name
        self.t0 = time.time()
        self.cov = {}  # coverage keys (measured)
        self.samples = []
        self.assumptions = []
        self.problems: list[Problem] = []
        self.capped = None
        self.budget_s = float(os.environ.get("VERIF_BUDGET_S", "0") or 0) or None
        self._pool = None

    # ---- counters -------------------------------------------------------
    def add(self, key, n=1):
        self.cov[key] = self.cov.get(key, 0) + n

    def set(self, key, v):
        self.cov[key] = v

    def sample(self, obj, limit=6):
        if len(self.samples) < limit:
            self.samples.append(jsonable(obj))

    def problem(self, sig, case, detail):
        self.problems.append(Problem(sig, case, detail))

    def elapsed(self):
        return time.time() - self.t0

    # ---- pool -----------------------------------------------------------
    def pool(self):
        if self._pool is None:
            ctxm = mp.get_context("spawn")
            self._pool = ProcessPoolExecutor(
                max_workers=int(os.environ.get("VERIF_WORKERS", NCPU)),
                mp_context=ctxm,
                initializer=_worker_init,
                initargs=(self.seed,),
            )
        return self._pool

    def pmap(self, func, items, chunksize=1):
        """Deterministic-order parallel map. `func` must be a module-level
        function; items are sent in chunks."""
        items = list(items)
        if not items:
            return []
        if int(os.environ.get("VERIF_WORKERS", NCPU)) <= 1 or len(items) == 1:
            _worker_init(self.seed)
            return [func(it) for it in items]
        chunks = [items[i : i + chunksize] for i in range(0, len(items), chunksize)]
        out = []
        for res in self.pool().map(_run_chunk, [(func, c) for c in chunks]):
            out.extend(res)
        return out

    def close(self):
        if self._pool is not None:
            self._pool.shutdown(wait=True, cancel_futures=True)
            self._pool = None

    # ---- finishing ------------------------------------------------------
    def finish(self):
        self.close()
        findings = load_known_findings()
        unlisted = []
        known_hit = {}
        for p in self.problems:
            f = match_finding(findings, self.pid, p.sig)
            if f is None:
                unlisted.append(p)
            else:
                known_hit.setdefault(f["id"], (f, []))[1].append(p)
        for fid, (f, ps) in sorted(known_hit.items()):
            print(f"KNOWN-FINDING: property={self.pid} {f['what']} [{fid}; {len(ps)} case(s) this run]")
        # group unlisted by signature; report the first (smallest) of each group
        groups = {}
        for p in unlisted:
            groups.setdefault(stable_hash(p.sig), []).append(p)
        os.makedirs(os.path.join(REPLAY_DIR, self.pid), exist_ok=True)
        for h, ps in groups.items():
            p = ps[0]
            path = write_replay(self.pid, self.module_name, self.tier, self.seed, p, len(ps))
            print(f"VIOLATION property={self.pid} replay={path}")
            print(f"  sig={json.dumps(jsonable(p.sig), sort_keys=True)} cases={len(ps)}")
            print(f"  {str(p.detail)[:600]}")
        cov = dict(self.cov)
        for k in ("evaluations", "distinct_nontrivial", "states", "transitions", "traces_validated_against_impl",
                  "obligations", "discharged", "programs", "disagreements_checked"):
            if k in cov and not (isinstance(cov[k], int) and not isinstance(cov[k], bool)):
                raise HarnessError(f"evidence key {k!r} is reserved for an integer count by EVIDENCE.schema.json")
        cov.setdefault("samples", self.samples or [{"note": "no sample recorded"}])
        if self.capped:
            cov["exhaustive"] = False
            cov["cap_hit"] = self.capped
        else:
            cov.setdefault("exhaustive", True)
        cov["known_findings_hit"] = {k: len(v[1]) for k, v in known_hit.items()}
        ev = {
            "property_id": self.pid,
            "tier": self.tier,
            "seed": self.seed,
            "level": self.level,
            "coverage": jsonable(cov),
            "assumptions": self.assumptions,
            "wall_s": round(self.elapsed(), 2),
            "violations": len(groups),
        }
        os.makedirs(EVIDENCE_DIR, exist_ok=True)
        tmp = os.path.join(EVIDENCE_DIR, f".{self.pid}.json.tmp")
        with open(tmp, "w") as f:
            json.dump(ev, f, indent=1, sort_keys=True)
        os.replace(tmp, os.path.join(EVIDENCE_DIR, f"{self.pid}.json"))
        brief = {k: v for k, v in cov.items() if isinstance(v, (int, float, bool, str)) and k != "rule"}
        print(f"[{self.pid}] tier={self.tier} seed={self.seed} wall={ev['wall_s']}s {json.dumps(brief, sort_keys=True)}")
        return 1 if groups else 0


def write_replay(pid, module_name, tier, seed, p: Problem, ncases=1):
    d = os.path.join(REPLAY_DIR, pid)
    os.makedirs(d, exist_ok=True)
    h = stable_hash({"sig": p.sig, "case": p.case})
    path = os.path.join(d, f"{h}.json")
    with open(path, "w") as f:
        json.dump(
            {
                "property": pid,
                "module": module_name,
                "tier": tier,
                "seed": seed,
                "cases_with_same_signature": ncases,
                **p.to_json(),
            },
            f,
            indent=1,
            sort_keys=True,
        )
    test = os.path.join(d, f"test_{h}.py")
    with open(test, "w") as f:
        f.write(
            "# Plain replay of one recorded counterexample, without the explorer.\n"
            "# Run: /venv/bin/python -m pytest -q " + test + "\n"
            "import sys\n"
            f"sys.path.insert(0, {ROOT!r})\n"
            "from vkit.main import replay_file\n\n"
            "def test_replay():\n"
            f"    problems = replay_file({path!r})\n"
            "    assert not problems, problems\n"
        )
    return path


_SEED = 0


def _worker_init(seed):
    global _SEED
    _SEED = seed
    import warnings

    warnings.simplefilter("ignore")
    os.environ.setdefault("PYTHONHASHSEED", "0")
    try:
        from . import fastsync
        fastsync.install()
        if os.environ.get("VERIF_ZARR_PIN", "1") == "1":
            import zarr
            zarr.config.set({"threading.max_workers": 1, "async.concurrency": 1})
    except Exception:
        pass


def worker_seed():
    return _SEED


def _run_chunk(args):
    func, chunk = args
    out = []
    for it in chunk:
        try:
            out.append(func(it))
        except Exception as e:  # harness error inside a worker
            raise HarnessError(f"worker failed on item {it!r}: {type(e).__name__}: {e}\n{traceback.format_exc()}")
    return out


def perm(seq, seed):
    """Deterministic permutation of an enumeration (never a subset)."""
    seq = list(seq)
    if not seed:
        return seq
    import random

    r = random.Random(seed)
    r.shuffle(seq)
    return seq
