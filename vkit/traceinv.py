"""Invariants evaluated on the store-level trace of one computation.

All functions take the World (event log with the issuing task of each
get/set/delete) and return lists of (kind, text).
"""
from __future__ import annotations

import itertools
import re

from .tstore import array_of_key, is_chunk_key


def expected_chunk_keys(store, path):
    """Chunk keys of the array at `path`, from its Zarr metadata read with plain zarr.
    Returns (set of keys relative to the store, grid description) or None if not an array."""
    import zarr

    try:
        za = zarr.open_array(store.with_read_only(True), path=path or None, mode="r")
    except Exception:
        return None
    shape = za.shape
    try:
        outer = za.shards or za.chunks
        nb = tuple(max(1, -(-n // c)) if n else 0 for n, c in zip(shape, outer))
    except NotImplementedError:
        nb = tuple(len(d) for d in za.read_chunk_sizes)
    pre = (path + "/") if path else ""
    if len(shape) == 0:
        return {pre + "c"}, nb
    if any(n == 0 for n in shape):
        return set(), nb
    keys = {pre + "c/" + "/".join(map(str, idx)) for idx in itertools.product(*[range(b) for b in nb])}
    return keys, nb


def produced_arrays(world, since=0):
    """{(store,label array path): {key: [(task, seq)]}} for every data-chunk set issued by a task"""
    out = {}
    for ev in world.events(since):
        if ev.op == "set" and ev.task is not None and is_chunk_key(ev.key):
            out.setdefault((ev.store, array_of_key(ev.key)), {}).setdefault(ev.key, []).append((ev.task, ev.seq))
    return out


def single_writer(world, since=0, regions=None):
    """C05: every data chunk of every produced array is set exactly once, by one task,
    without a prior get of that key by that task, and the keys set cover the array's grid
    (`regions`: {(store, path): set of expected keys} overrides the full grid)."""
    probs = []
    prod = produced_arrays(world, since)
    # read-modify-write: a get of a key by the task that later sets it
    first_set = {}
    for ev in world.events(since):
        if ev.op == "set" and is_chunk_key(ev.key):
            first_set.setdefault((ev.store, ev.key, ev.task), ev.seq)
    sharded = {}

    def is_sharded(label, path):
        # a write to an edge shard that extends past the array bound is a partial-shard write for
        # zarr's sharding codec (it reads the shard first) although one task owns the whole shard:
        # the read-before-write rule is therefore not applied to sharded arrays (single-writer and
        # coverage rules are).
        if (label, path) not in sharded:
            import zarr
            try:
                za = zarr.open_array(world.stores[label].with_read_only(True), path=path or None, mode="r")
                sharded[(label, path)] = za.shards is not None
            except Exception:
                sharded[(label, path)] = False
        return sharded[(label, path)]

    for ev in world.events(since):
        if ev.op == "get" and ev.task is not None and is_chunk_key(ev.key):
            s = first_set.get((ev.store, ev.key, ev.task))
            if s is not None and ev.seq < s and is_sharded(ev.store, array_of_key(ev.key)):
                continue
            if s is not None and ev.seq < s:
                probs.append(("read-modify-write", f"task {ev.task} read chunk {ev.store}:{ev.key} before writing it (partial-chunk write)"))
    for (label, path), keys in sorted(prod.items()):
        for k, ws in sorted(keys.items()):
            tasks = sorted({str(t) for t, _ in ws})
            if len(ws) != 1:
                probs.append(("multiple-writes", f"chunk {label}:{k} written {len(ws)} times by tasks {tasks[:4]}"))
        st = world.stores[label]
        exp = (regions or {}).get((label, path))
        if exp is None:
            r = expected_chunk_keys(st, path)
            if r is None:
                probs.append(("no-metadata", f"array {label}:{path} received chunk writes but has no readable Zarr metadata"))
                continue
            exp = r[0]
        got = set(keys)
        if got != exp:
            missing = sorted(exp - got)[:4]
            extra = sorted(got - exp)[:4]
            probs.append(("coverage", f"array {label}:{path}: chunk keys written != chunk grid; missing {missing} unexpected {extra}"))
    return probs


def reads_after_writes(world, since=0):
    """C07: every get of a data chunk of an array produced by this computation hits, and for
    every produced chunk key the write became visible before any task read it; every metadata
    read of a produced array by a task finds it."""
    probs = []
    prod = produced_arrays(world, since)
    produced_keys = {(label, k) for (label, _), keys in prod.items() for k in keys}
    produced_paths = {(label, path) for (label, path) in prod}
    visible_at = {}
    overlay = any(ev.op == "visible" for ev in world.events(since))
    for ev in world.events(since):
        if ev.op == "visible" and is_chunk_key(ev.key):
            visible_at.setdefault((ev.store, ev.key), ev.seq)
        if ev.op == "set" and not overlay and is_chunk_key(ev.key):
            visible_at.setdefault((ev.store, ev.key), ev.seq)
    for ev in world.events(since):
        if ev.op != "get" or ev.task is None:
            continue
        if is_chunk_key(ev.key) and (ev.store, ev.key) in produced_keys:
            if ev.info == "own":
                continue
            v = visible_at.get((ev.store, ev.key))
            if ev.info is False:
                probs.append(("read-miss", f"task {ev.task} read chunk {ev.store}:{ev.key} before it was written (fill value returned)"))
            elif v is None or ev.seq < v:
                probs.append(("read-before-final", f"task {ev.task} read chunk {ev.store}:{ev.key} before its final value was visible"))
        elif ev.key.endswith("zarr.json") and ev.info is False:
            path = array_of_key(ev.key)
            if (ev.store, path) in produced_paths and not str(ev.task[0]).startswith("create-arrays"):
                probs.append(("metadata-miss", f"task {ev.task} opened array {ev.store}:{path} before it was created"))
    return probs


def mutations_of(world, label, since=0):
    return [ev for ev in world.events(since) if ev.store == label and ev.op in ("set", "delete")]
