"""VirtualExecutor: runs the real cubed.runtime.asyncio.async_map_dag on the
virtual loop.  create_futures_func executes the real task body immediately
(reads happen at submission, against the visible store) with its writes going
to a per-task overlay of the TStore world; the future stays pending until the
chooser completes it, and only then are the task's writes flushed (made
visible).  Any real execution has reads no earlier and visibility no later, so
a missing barrier or a shared chunk shows deterministically.
"""
from __future__ import annotations

import contextlib
import io

from cubed.runtime.types import DagExecutor

from .common import HarnessError
from .vloop import VLoop, installed


class VTask:
    __slots__ = ("name", "idx", "inp", "fut", "exc", "tid", "seq", "afut")

    def __init__(self, name, idx, inp, fut, exc, tid, seq):
        self.name, self.idx, self.inp, self.fut, self.exc, self.tid, self.seq = name, idx, inp, fut, exc, tid, seq
        self.afut = None


import re

_NAME_RE = re.compile(r"\b([A-Za-z]+)-(\d{3,})\b")


def canon_names(dag):
    """gensym names differ between executions (process-global counters); map every
    '<prefix>-<number>' node name to '<prefix>#<rank>' (rank among the dag's names)."""
    by_prefix = {}
    for n in dag.nodes:
        m = _NAME_RE.fullmatch(str(n))
        if m:
            by_prefix.setdefault(m.group(1), set()).add(int(m.group(2)))
    table = {}
    for pre, nums in by_prefix.items():
        for r, k in enumerate(sorted(nums)):
            table[(pre, k)] = f"{pre}#{r}"
    return table


def canon_text(table, text):
    return _NAME_RE.sub(lambda m: table.get((m.group(1), int(m.group(2))), m.group(0)), str(text))


class VirtualExecutor(DagExecutor):
    """chooser.choose(k, label, fp) picks which pending task completes next
    (menu in canonical order: op name order of first submission, then task index).
    kwargs: compute_arrays_in_parallel, batch_size (passed to async_map_dag)."""

    HORIZON = 20000

    def __init__(self, world, chooser=None, overlay=True, parallel=False, batch_size=None, fault=None, real_futures=None, **kwargs):
        super().__init__(**kwargs)
        self.real_futures = real_futures  # None | 'threads' | 'processes': use cubed's own create-futures functions over a held pool
        self.world = world
        self.chooser = chooser
        self.overlay = overlay
        self.parallel = parallel
        self.batch_size = batch_size
        self.entered = False
        self.completed = []  # order of completion [(name, idx)]
        self.submitted = []
        self.events = []
        self.reverse_done = False
        self.wait_calls = 0
        self._rank = {}
        self._by_fut = {}
        self.max_pending = 0
        self.choice_points = 0

    @property
    def name(self):
        return "virtual"

    def canon(self, text):
        return canon_text(getattr(self, "_canon", {}), text)

    def state_fingerprint(self):
        """(completed set, submitted set, digest of every store access so far), names canonicalised"""
        c = self.canon
        digest = frozenset(c((ev.task, ev.op, ev.store, ev.key, ev.info)) for ev in self.world.log if ev.task is not None)
        return (frozenset(c(x) for x in self.completed), frozenset(c(x) for x in self.submitted), hash(digest))

    # controller interface for AsyncioShim
    def done_key(self, f):
        return self._rank.get(f, 10**9)

    def pending_key(self, f):
        t = self._by_fut.get(f)
        return (t.seq,) if t else (10**9,)

    def execute_dag(self, dag, callbacks=None, spec=None, compute_id=None, **kwargs):
        import cubed.runtime.asyncio as cra

        self.entered = True
        self.dag = dag
        self._canon = canon_names(dag)
        w = self.world
        loop = VLoop()
        pending: list[VTask] = []
        op_order = {}
        counters = {}

        def cff(inputs, name=None, func=None, config=None, **kw):
            out = []
            for i in inputs:
                f = loop.create_future()
                # `name` is not passed on batch refills by async_map_unordered; recover it from the config
                nm = name if name is not None else self._name_of.get(id(config), "?")
                if name is not None:
                    self._name_of[id(config)] = name
                op_order.setdefault(nm, len(op_order))
                k = counters.get(nm, 0)
                counters[nm] = k + 1
                tid = (nm, k)
                exc = None
                w.cur = tid
                old_overlay = w.overlay_mode
                w.overlay_mode = self.overlay
                try:
                    func(i, config=config)
                except Exception as e:  # task failure: delivered when the future completes
                    exc = e
                finally:
                    w.cur = None
                    w.overlay_mode = old_overlay
                t = VTask(nm, k, i, f, exc, tid, len(self.submitted))
                self._by_fut[f] = t
                self.submitted.append((nm, k))
                pending.append(t)
                out.append((i, f))
            return out

        self._name_of = {}
        if self.real_futures:
            import concurrent.futures as cf
            from cubed.runtime.executors import local as _local

            ex_self = self

            class HeldPool:
                """stands in for the Thread/ProcessPoolExecutor: runs the submitted callable at once (reads at
                submission, writes into the task's overlay) and hands back a pending concurrent Future that the
                explorer completes later"""

                def _op_name(self, k):
                    import cloudpickle
                    nm, cfgv = k.get("name"), k.get("config")
                    key = hash(cfgv) if isinstance(cfgv, bytes) else id(cfgv)
                    if isinstance(nm, bytes):
                        nm = cloudpickle.loads(nm)
                    if nm is None:
                        nm = ex_self._name_of.get(key, "?")
                    else:
                        ex_self._name_of[key] = nm
                    return nm

                def submit(self, fn, *a, **k):
                    fut = cf.Future()
                    seq = len(ex_self.submitted)
                    opn = self._op_name(k)
                    tid = (opn, seq)
                    op_order.setdefault("task", 0)
                    w.cur = tid
                    old_overlay = w.overlay_mode
                    w.overlay_mode = ex_self.overlay
                    res = exc = None
                    try:
                        res = fn(*a, **k)
                    except Exception as e:  # noqa
                        exc = e
                    finally:
                        w.cur = None
                        w.overlay_mode = old_overlay
                    t = VTask("task", seq, None, fut, exc, tid, seq)
                    t.inp = res
                    ex_self.submitted.append((opn, seq))
                    pending.append(t)
                    return fut

            pool = HeldPool()
            import asyncio as _asyncio

            class LocalAsyncioShim:
                """records which asyncio future wraps which held concurrent future (for canonical wait() ordering)"""

                def __getattr__(self, n):
                    return getattr(_asyncio, n)

                def wrap_future(self, f, *, loop=None):
                    af = _asyncio.wrap_future(f, loop=loop)
                    for t in pending:
                        if t.fut is f:
                            ex_self._by_fut[af] = t
                            t.afut = af
                    return af

            self._saved_local_asyncio = _local.asyncio
            _local.asyncio = LocalAsyncioShim()
            if self.real_futures == "processes":
                cff = _local.processes_create_futures_func(pool, _local.run_func_processes)
            else:
                cff = _local.threads_create_futures_func(pool, _local.run_func_threads, 0)
        kw = {}
        if self.batch_size is not None:
            kw["batch_size"] = self.batch_size
        with installed(loop, self), contextlib.redirect_stdout(io.StringIO()):
            task = loop.create_task(
                cra.async_map_dag(cff, dag, callbacks=callbacks, compute_arrays_in_parallel=self.parallel, **kw)
            )
            steps = 0
            try:
                while not task.done():
                    loop.drain()
                    if task.done():
                        break
                    steps += 1
                    if steps > self.HORIZON:
                        raise HarnessError("VirtualExecutor horizon exceeded")
                    pend = sorted((t for t in pending if not t.fut.done()), key=lambda t: (op_order[t.name], t.idx))
                    self.max_pending = max(self.max_pending, len(pend))
                    if not pend:
                        if loop.next_timer() is None:
                            raise HarnessError("deadlock: async_map_dag is waiting but no task is pending")
                        loop.advance_to_next_timer()
                        continue
                    if self.chooser is not None and len(pend) > 1:
                        self.choice_points += 1
                        c = self.chooser.choose(len(pend), "complete")
                    else:
                        c = 0
                    t = pend[c]
                    pending.remove(t)
                    self._rank[t.afut if t.afut is not None else t.fut] = len(self._rank)
                    w.flush(t.tid)
                    self.completed.append(t.tid if self.real_futures else (t.name, t.idx))
                    if t.exc is not None:
                        t.fut.set_exception(t.exc)
                    elif self.real_futures:
                        t.fut.set_result(t.inp)  # what cubed's own run function returned: (result, stats)
                    else:
                        t.fut.set_result((None, dict(function_start_tstamp=0.0, function_end_tstamp=0.0)))
            finally:
                if self.real_futures:
                    _local.asyncio = self._saved_local_asyncio
                if not task.done():
                    task.cancel()
                    with contextlib.suppress(BaseException):
                        loop.drain()
            exc = task.exception() if not task.cancelled() else None
        if exc is not None:
            raise exc
