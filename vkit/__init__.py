"""vkit: bounded exhaustive exploration (model checking) harness for cubed."""
