"""Stateless deviation-bounded DFS over choice sequences (ChoiceDFS).

An execution is a function run(chooser) -> observation that calls
chooser.choose(k, label, fp=None) at every choice point.  Choice 0 is the
default; any other choice costs one deviation.  All sequences with at most
`max_dev` deviations are enumerated.  If a fingerprint `fp` (a hashable value
that contains everything the system under test and the harness can read) is
given, a subtree is skipped when the same fingerprint was already expanded with
at least as much remaining deviation budget.
"""
from __future__ import annotations

from .common import HarnessError


class Pruned(BaseException):
    pass


class Chooser:
    def __init__(self, prefix, max_dev, seen):
        self.prefix = list(prefix)
        self.trace = []
        self.points = []
        self.labels = []
        self.max_dev = max_dev
        self.seen = seen
        self.devs = 0
        self.fps = []

    def choose(self, k, label="", fp=None):
        pos = len(self.trace)
        if k <= 0:
            raise HarnessError(f"empty menu at choice point {pos} ({label})")
        if pos < len(self.prefix):
            c = self.prefix[pos]
            if c >= k:
                raise HarnessError(
                    f"replay divergence at point {pos} ({label}): choice {c} but menu has {k} entries"
                )
        else:
            c = 0
            if fp is not None and self.seen is not None:
                rem = self.max_dev - self.devs
                key = (label, fp)
                old = self.seen.get(key, -1)
                if old >= rem:
                    raise Pruned()
                self.seen[key] = rem
        if fp is not None:
            self.fps.append(fp)
        self.trace.append(c)
        self.points.append(k)
        self.labels.append(label)
        if c != 0:
            self.devs += 1
        return c


def explore(run, check, max_dev, prune=True, limit=None, on_exec=None):
    """run(chooser) -> obs ; check(obs, trace) -> list of problems.
    Returns dict(executions, pruned, transitions, states, capped, problems=[(trace, problem)])."""
    seen = {} if prune else None
    stack = [[]]
    stats = dict(executions=0, pruned=0, transitions=0, capped=False, max_trace=0)
    states = set()
    problems = []
    while stack:
        prefix = stack.pop()
        ch = Chooser(prefix, max_dev, seen)
        try:
            obs = run(ch)
            pruned = False
        except Pruned:
            obs = None
            pruned = True
        stats["executions"] += 1
        stats["transitions"] += len(ch.trace) - (len(prefix) - 1 if prefix else 0)
        stats["max_trace"] = max(stats["max_trace"], len(ch.trace))
        states.update(ch.fps)
        if pruned:
            stats["pruned"] += 1
        else:
            for p in check(obs, list(ch.trace)):
                problems.append((list(ch.trace), p))
            if on_exec:
                on_exec(obs, ch)
        devs = sum(1 for c in prefix if c != 0)
        if devs < max_dev:
            # expand alternatives at every point after the prefix (children pushed so
            # that shallower deviations are explored first => minimal counterexamples first)
            for i in range(len(ch.points) - 1, len(prefix) - 1, -1):
                for alt in range(ch.points[i] - 1, 0, -1):
                    stack.append(ch.trace[:i] + [alt])
        if limit and stats["executions"] >= limit:
            stats["capped"] = True
            break
    stats["states"] = len(states)
    stats["problems"] = problems
    return stats
