"""Scheduler-only executions of the real cubed.runtime.asyncio.async_map_unordered
under the virtual loop: the harness owns every future, the clock and the
iteration order of wait() results.  One execution = one choice sequence."""
from __future__ import annotations

import contextlib
import io

from .common import HarnessError
from .vloop import VLoop, installed


class TaskFailure(RuntimeError):
    """The exception a scripted task fails with (a 'task's own error')."""

    def __init__(self, inp, kind):
        super().__init__(f"task failure input={inp} {kind}")
        self.inp = inp
        self.kind = kind


class Sub:
    __slots__ = ("inp", "kind", "fut", "seq")

    def __init__(self, inp, kind, fut, seq):
        self.inp, self.kind, self.fut, self.seq = inp, kind, fut, seq

    @property
    def name(self):
        return (self.inp, 0 if self.kind == "orig" else 1)

    def status(self):
        f = self.fut
        if not f.done():
            return "pending"
        if f.cancelled():
            return "cancelled"
        return "fail" if f.exception() else "ok"


class SchedRun:
    """cfg: n, use_backups, batch_size, n_fast, pre_ticks, max_ticks, simul (bool)"""

    HORIZON = 400

    def __init__(self, cfg, chooser):
        self.cfg = cfg
        self.ch = chooser
        self.subs: list[Sub] = []
        self.by_fut = {}
        self.rank = {}
        self.reverse_done = False
        self.wait_calls = 0
        self.ticks = 0
        self.results = []
        self.err = None
        self.hang = None
        self.raise_time_status = None
        self.agen = None
        self.backups_launched = 0

    # --- controller interface used by AsyncioShim
    def done_key(self, f):
        return self.rank.get(f, 10**9)

    def pending_key(self, f):
        s = self.by_fut.get(f)
        return s.name if s else (10**9, 0)

    def _mk(self, kind, loop):
        def cf(inputs, **kw):
            out = []
            for i in inputs:
                f = loop.create_future()
                s = Sub(i, kind, f, len(self.subs))
                self.subs.append(s)
                self.by_fut[f] = s
                if kind == "backup":
                    self.backups_launched += 1
                out.append((i, f))
            return out

        return cf

    def _complete(self, s, ok):
        self.rank[s.fut] = len(self.rank)
        if ok:
            s.fut.set_result(s.inp)
        else:
            s.fut.set_exception(TaskFailure(s.inp, s.kind))

    def _pend(self):
        return sorted((s for s in self.subs if not s.fut.done()), key=lambda s: s.name)

    def fingerprint(self, loop):
        fr = getattr(self.agen, "ag_frame", None)
        nm = lambda f: self.by_fut[f].name if f in self.by_fut else ("?", id(f))
        if fr is not None:
            L = fr.f_locals
            core = (
                tuple(sorted(nm(f) for f in L.get("pending", ()))),
                tuple(sorted((nm(a), nm(b)) for a, b in L.get("backups", {}).items())),
                tuple(sorted((nm(f), t) for f, t in L.get("start_times", {}).items())),
                tuple(sorted((nm(f), t) for f, t in L.get("end_times", {}).items())),
                tuple(sorted(nm(f) for f in L.get("tasks", {}))),
                tuple(sorted(nm(f) for f in L.get("superseded", ()))) if "superseded" in L else (),
            )
        else:
            core = ("finished",)
        return (
            core,
            tuple((s.name, s.status()) for s in sorted(self.subs, key=lambda s: (s.name, s.seq))),
            tuple(sorted(self.results)),
            loop._vt,
            tuple(loop.timers()),
            self.ticks,
        )

    def run(self):
        import cubed.runtime.asyncio as cra

        cfg = self.cfg
        n = cfg["n"]
        loop = VLoop()

        async def main():
            try:
                self.agen = cra.async_map_unordered(
                    self._mk("orig", loop),
                    range(n),
                    use_backups=cfg["use_backups"],
                    create_backup_futures_func=self._mk("backup", loop),
                    batch_size=cfg["batch_size"],
                )
                async for r in self.agen:
                    self.results.append(r)
            except BaseException as e:  # noqa
                self.err = e
                self.raise_time_status = {s.seq: s.status() for s in self.subs}

        with installed(loop, self), contextlib.redirect_stdout(io.StringIO()):
            task = loop.create_task(main())
            try:
                steps = 0
                preticked = 0
                while not task.done():
                    loop.drain()
                    if task.done():
                        break
                    steps += 1
                    if steps > self.HORIZON:
                        self.hang = "horizon"
                        break
                    pend = self._pend()
                    fast = [s for s in pend if s.inp < cfg["n_fast"] and s.kind == "orig"]
                    if fast:
                        self.reverse_done = False
                        self._complete(fast[0], True)
                        if loop._vt < 1.0:
                            loop._vt = 1.0
                        continue
                    if preticked < cfg.get("pre_ticks", 0) and loop.next_timer() is not None and pend:
                        preticked += 1
                        loop.advance_to_next_timer()
                        continue
                    menu = []
                    for s in pend:
                        menu.append(("ok", s))
                        menu.append(("fail", s))
                    if loop.next_timer() is not None and (
                        not pend or (cfg["use_backups"] and self.ticks < cfg.get("max_ticks", 3))
                    ):
                        menu.append(("tick", None))
                    if not menu:
                        self.hang = "deadlock"
                        break
                    c = self.ch.choose(len(menu), "menu", self.fingerprint(loop))
                    act, s = menu[c]
                    if act == "tick":
                        self.ticks += 1
                        loop.advance_to_next_timer()
                        continue
                    self._complete(s, act == "ok")
                    pend = self._pend()
                    self.reverse_done = False
                    if pend and cfg.get("simul", True):
                        c2 = self.ch.choose(1 + 2 * len(pend), "simul")
                        if c2 > 0:
                            q = pend[(c2 - 1) // 2]
                            self._complete(q, (c2 - 1) % 2 == 0)
                            self.reverse_done = bool(self.ch.choose(2, "order"))
            finally:
                if not task.done():
                    task.cancel()
                    try:
                        loop.drain()
                    except BaseException:
                        pass
        return self.observe()

    def observe(self):
        subs = [
            dict(inp=s.inp, kind=s.kind, final=s.status(),
                 at_raise=(self.raise_time_status or {}).get(s.seq))
            for s in self.subs
        ]
        e = self.err
        return dict(
            n=self.cfg["n"],
            results=list(self.results),
            err=None if e is None else dict(
                type=type(e).__name__, msg=str(e)[:200],
                task=isinstance(e, TaskFailure), inp=getattr(e, "inp", None), kind=getattr(e, "kind", None)),
            hang=self.hang,
            subs=subs,
            backups_launched=self.backups_launched,
        )


def oracle(obs):
    """Reference model of the property statement over the recorded submissions.
    Returns list of (sigkind, text)."""
    from collections import Counter

    probs = []
    n = obs["n"]
    by_inp = {}
    for s in obs["subs"]:
        by_inp.setdefault(s["inp"], []).append(s)
    for i, l in by_inp.items():
        if len(l) > 2:
            probs.append(("oversubmitted", f"input {i} submitted {len(l)} times"))
        if sum(1 for s in l if s["kind"] == "orig") > 1:
            probs.append(("oversubmitted", f"input {i} has {sum(1 for s in l if s['kind']=='orig')} original submissions"))
    c = Counter(obs["results"])
    if obs["hang"]:
        probs.append(("hang", f"map did not terminate: {obs['hang']}"))
        return probs
    err = obs["err"]
    if err is None:
        for i in range(n):
            if c[i] != 1:
                probs.append(("delivery-count", f"finished normally but input {i} delivered {c[i]} times"))
            if not any(s["final"] == "ok" for s in by_inp.get(i, [])):
                probs.append(("done-without-success", f"finished normally but input {i} has no successful submission"))
        extra = [k for k in c if not (isinstance(k, int) and 0 <= k < n)]
        if extra:
            probs.append(("delivery-count", f"unknown results delivered {extra}"))
    else:
        if not err["task"]:
            probs.append(("foreign-exception", f"raised {err['type']}: {err['msg']} (not a task's own error)"))
        else:
            i = err["inp"]
            l = by_inp.get(i, [])
            # legit only if, when raised, no submission of that input had succeeded or was still pending
            alive = [s for s in l if s["at_raise"] in ("ok", "pending")]
            if alive:
                probs.append((
                    "raised-although-success-possible",
                    f"raised failure of input {i} although a submission of it was {sorted(s['at_raise'] for s in alive)}",
                ))
        for i, k in c.items():
            if k > 1:
                probs.append(("delivery-count", f"input {i} delivered {k} times before the error"))
    return probs
